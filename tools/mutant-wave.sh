#!/bin/bash
# tools/mutant-wave.sh [tier]   run every mutants/<prop>-*.patch against its property's check (equiv-<prop>-* must exit 0)
cd "$(dirname "$0")/.."
tier="${1:-quick}"
for m in mutants/*.patch; do
  b=$(basename "$m" .patch)
  case "$b" in equiv-*) p=$(echo "$b" | cut -d- -f2);; *) p=$(echo "$b" | cut -d- -f1);; esac
  P=$(echo "$p" | tr a-z A-Z)
  tools/mutant-run.sh "$m" "$P" "$tier" | head -1 | cut -c1-260
done
