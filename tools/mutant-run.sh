#!/bin/bash
# tools/mutant-run.sh <patch> <property> [tier]   apply a patch to a scratch copy of /repo, confirm it builds and
# passes the repository's own tests, run one check against it, report. Never touches /repo.
set -u
. "$(dirname "${BASH_SOURCE[0]}")/../bin/env.sh"
PATCH="$(readlink -f "$1")"; PROP="$2"; TIER="${3:-quick}"
W=$(mktemp -d /tmp/mutant.XXXXXX)
trap 'rm -rf "$W"' EXIT
rsync -a --exclude .git /repo/ "$W/repo/"
( cd "$W/repo" && patch -p1 -s < "$PATCH" ) || { echo "MUTANT $1: patch does not apply"; exit 3; }
( cd "$W/repo" && go build ./... && go test -count=1 ./... >"$W/test.log" 2>&1 ) || { echo "MUTANT $(basename $1): does not build or fails the suite"; tail -5 "$W/test.log"; exit 3; }
out=$(VERIF_REPO="$W/repo" VERIF_EVIDENCE_DIR="$W/evidence" "$VERIF_ROOT/bin/check" "$PROP" "$TIER" 2>&1); rc=$?
echo "MUTANT $(basename $1) property=$PROP tier=$TIER exit=$rc $(echo "$out" | grep -m1 -A2 '^VIOLATION' | tr '\n' ' ' | cut -c1-300)"
[ -n "${MUTANT_VERBOSE:-}" ] && echo "$out" | tail -20
exit $rc
