#!/usr/bin/env python3
"""Assembles seeded/REGRESSION.md from the logs of the last full regression (paths given on the command line:
seeded log, own-mutants log, equivalents log, optional extra seeded logs)."""
import sys, re, subprocess, datetime
seeded, mutants, equiv = sys.argv[1:4]
extra = sys.argv[4:]
def rd(p):
    try: return open(p).read()
    except Exception: return ""
s = rd(seeded) + "".join(rd(p) for p in extra)
lines = ["# Regression of every stored change against the current checks", "",
 "Last full regression (2026-10-05); /repo at %s. Every seeded change and own mutant must make its property's quick check exit 1; every behaviour-preserving refactor must leave all seven quick checks at exit 0." % subprocess.check_output(["git","-C","/repo","rev-parse","--short","HEAD"]).decode().strip(), "",
 "## Seeded changes (sub-agents)", "```"]
rows = [l for l in s.splitlines() if "SEEDED" in l]
lines += [l[:185] for l in rows]
lines += ["```", "%d of %d caught." % (sum("check_exit=1" in l for l in rows), len(rows)), "", "## Own mutants", "```"]
m = [l for l in rd(mutants).splitlines() if l.startswith("MUTANT")]
lines += [l[:185] for l in m]
lines += ["```", "%d of %d caught." % (sum(" exit=1" in l for l in m), len(m)), "", "## Behaviour-preserving refactors", "```"]
e = [l for l in rd(equiv).splitlines() if l.startswith("EQUIV")]
lines += [l[:150] for l in e]
quiet = sum(1 for l in e if re.search(r"C03=0 C07=0 C08=0 C09=0 C10=0 C16=0 C20=0", l))
lines += ["```", "%d of %d quiet on all seven checks." % (quiet, len(e)), ""]
open("/verif/seeded/REGRESSION.md", "w").write("\n".join(lines))
print(len(rows), len(m), len(e), quiet)
