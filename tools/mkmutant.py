#!/usr/bin/env python3
"""mkmutant.py <name> <file> <<< 'OLD\n====\nNEW'  -> writes /verif/mutants/<name>.patch (diff against /repo working tree)"""
import sys, subprocess, tempfile, os, shutil
name, rel = sys.argv[1], sys.argv[2]
old, new = sys.stdin.read().split("\n====\n")
src = open(os.path.join("/repo", rel)).read()
assert old in src, "old text not found"
d = tempfile.mkdtemp()
os.makedirs(os.path.join(d, "a", os.path.dirname(rel)), exist_ok=True)
os.makedirs(os.path.join(d, "b", os.path.dirname(rel)), exist_ok=True)
open(os.path.join(d, "a", rel), "w").write(src)
open(os.path.join(d, "b", rel), "w").write(src.replace(old, new.rstrip("\n") if not new.endswith("\n\n") else new, 1))
p = subprocess.run(["diff", "-u", "a/" + rel, "b/" + rel], cwd=d, capture_output=True, text=True).stdout
out = os.path.join("/verif/mutants", name + ".patch")
mode = "a" if os.path.exists(out) and "--append" in sys.argv else "w"
open(out, mode).write(p)
shutil.rmtree(d)
print(out, len(p.splitlines()), "lines")
