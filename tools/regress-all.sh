#!/bin/bash
# tools/regress-all.sh   every stored seeded change and mutant must be caught by its property's check (exit 1),
# every equivalent refactor must leave all seven checks at exit 0. Writes seeded/REGRESSION.md.
cd "$(dirname "$0")/.."
out=/tmp/regress.$$; mkdir -p $out
: > $out/seeded.log; : > $out/mutants.log; : > $out/equiv.log
for d in seeded/*/; do
  id=$(basename $d)
  P=$(python3 -c "import json;m=json.load(open('$d/meta.json'));print(m.get('caught_by_other_property',{}).get('property') or m['breaks_property'])")
  echo -n "$id [$P] " >> $out/seeded.log
  tools/seeded-verify.sh "$PWD/seeded" $P $id >> $out/seeded.log 2>&1
done
for m in mutants/*.patch; do
  b=$(basename $m .patch)
  case "$b" in
    equiv-*) tools/equiv-run.sh $m >> $out/equiv.log 2>&1 ;;
    *) P=$(echo $b | cut -d- -f1 | tr a-z A-Z); tools/mutant-run.sh $m $P quick 2>&1 | head -1 | cut -c1-220 >> $out/mutants.log ;;
  esac
done
{
 echo "# Regression of every stored change against the current checks"
 echo
 echo "Produced by tools/regress-all.sh on $(date -u +%Y-%m-%dT%H:%MZ), /verif at $(git rev-parse --short HEAD), /repo at $(git -C /repo rev-parse --short HEAD)."
 echo
 echo "## Seeded changes (sub-agents): must be caught (check_exit=1)"
 echo '```'
 cut -c1-200 $out/seeded.log
 echo '```'
 echo "## Own mutants: must be caught (exit=1)"
 echo '```'
 cat $out/mutants.log
 echo '```'
 echo "## Behaviour-preserving refactors: every check must exit 0"
 echo '```'
 grep "^EQUIV\|MUTANT" $out/equiv.log | cut -c1-220
 echo '```'
} > seeded/REGRESSION.md
echo "caught: $(grep -c 'check_exit=1' $out/seeded.log)/$(grep -c SEEDED $out/seeded.log) seeded, $(grep -c 'exit=1' $out/mutants.log)/$(wc -l < $out/mutants.log) mutants; equivalents with a non-zero check: $(grep '^EQUIV' $out/equiv.log | grep -vc 'C03=0 C07=0 C08=0 C09=0 C10=0 C16=0 C20=0')"
