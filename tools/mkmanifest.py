#!/usr/bin/env python3
"""Regenerates /verif/MANIFEST.json. Edit CLAIMED below when a check is added."""
import json, os
ROOT = os.path.dirname(os.path.dirname(os.path.abspath(__file__)))
NA = {
"C01":"pure function program -> DSL -> text -> AST; no schedule, fault, clock or history in it (DESIGN.md section 0)",
"C02":"pure function of (tree, File settings); 'error not panic' quantifies over inputs only",
"C04":"stated for a freshly built File only: pure function of (tree, hints, Anon set)",
"C05":"pure function of (path multiset, hints, prefix); keyword/universe coverage is input enumeration",
"C06":"pure function of (local path, dot-import set, prefix)",
"C11":"pure function value -> literal text",
"C12":"pure function string/rune/byte -> literal text",
"C13":"pure function of the tree (null items in lists)",
"C14":"pure: form equivalence; callback timing is fixed by straight-line code, no schedule can move it",
"C15":"pure function of (tree, comment text, position)",
"C17":"pure function map -> tag literal; the key sort makes map order invisible and the order aspect is covered by C07",
"C18":"table lookup against the installed toolchain; enumeration of paths, nothing to schedule or fault",
"C19":"pure function of (Qual/Anon/preamble combination, prefix, hints)",
}
PENDING = {}
CLAIMED = {
"C09": dict(engine="concsim", cat="exploration", ref="DESIGN.md 5.5",
  technique="deterministic simulation: independent build+render+save jobs as tasks of a seeded cooperative (baton) scheduler with a yield before every statement of package jen (random-walk, PCT and hot-spot strategies; sync primitives, sync.Pool and the clock owned by the simulator), solo-run reference from pristine process state, invariant on jen's package-level state, shared names table and shared Code values; deadlocks reported through the Go runtime's detector; auxiliary real-goroutine leg under the race detector",
  text="O1: every job's result (bytes, error class, panic) interleaved with the others, and run after the others in a seeded order, equals the same job run alone from pristine package state; O2: a deep digest of everything reachable from jen's package-level variables never moves away from its process-start value (enforced while the package uses no sync/atomic); share mode: Files with different settings sharing sub-statements render as private rebuilds do; O3 (auxiliary, outside the technique family, sound): the same kind of jobs on 16 real goroutines of the unrewritten package under go's race detector.",
  note="The scheduler serialises tasks, so it cannot show a data race by itself (hand-offs are happens-before edges): O2 and O3 carry that part of the statement; the O3 schedule is the Go runtime's and its replay file is the workload plus a repeat count. Blocking sync primitives inside jen are redirected to scheduler-aware wrappers by the rewriter; goroutines spawned inside jen are reported, not scheduled."),
"C20": dict(engine="clonesim", cat="exploration", ref="DESIGN.md 5.7",
  technique="deterministic simulation: original and nested clones as logical actors, seeded interleaving of appends of varying width against a per-actor list model, every actor rendered after every step",
  text="Seeded histories of Clone and append operations (Dot, Call, Index, Assert, qualified arguments, Add of 1..9 items, nil items, struct tags, the original's own slice spread into a clone; empty originals; a case-clause scenario with Blocks on clones) so that slice capacity is and is not exhausted at clone time (probe counted); after every step every actor is observed formatted and raw (inside a NoFormat File) and must render its own tokens in order after a prefix that is its parent's rendering at clone time or now; a fresh clone renders like its parent.",
  note="Token streams are compared with go/scanner (layout-insensitive); both a wrapping clone and a copying clone are accepted, as the statement allows."),
"C10": dict(engine="filesim", cat="fault_enumeration", ref="DESIGN.md 5.6",
  technique="deterministic simulation with fault injection: fault plans at the caller's io.Writer (error / short write at the k-th Write) and at the os boundary under File.Save (real ENOENT/EISDIR/ENOTDIR situations in a sandbox; injected EACCES/ENOSPC/EIO with partial writes), enumerated over a fixed grid and sampled by seed; reference = fault-free rebuild of the same history",
  text="A fixed grid (5 trees x 7 entry points x every fault kind and Save target) is enumerated on every run; beyond it trees (incl. unrenderable ones, 33-140 KB outputs, non-identifier package names), histories (repeated Saves to one path after the world changed, failure bursts) and fault plans (writer error/short write at Write 1..5, re-entrant writer, EACCES/ENOSPC/EIO with partial writes at the 1st/2nd filesystem call, read-only and long existing targets) are sampled by seed. A1: failed render => the writer got 0 bytes / the Save target is untouched; A2/A3: a nil return means the writer/target holds exactly the bytes of an independent fault-free rebuild, in this world and in a world where no fault ever fired; A4: success/failure agrees with that rebuild when no fault fired.",
  note="Filesystem faults are injected at the package-level os functions and *os.File methods the rewriter redirects (listed in evidence as os_calls_redirected; anything else is reported as unintercepted); contract-violating writers (short count with nil error) are not injected; nothing is claimed about a regular target's content after a failed write; when the target cannot even be opened (it is a directory, also an empty one, its parent is missing or a file) and Save fails, the whole directory must be as before."),
"C03": dict(engine="filesim", cat="exploration", ref="DESIGN.md 5.1",
  technique="deterministic simulation: seeded File-lifecycle histories (hint/Anon/prefix/add/render in any order) under simulator-chosen map order; each rendered File's import bindings resolved against fabricated packages (own resolver + go/types)",
  text="Seeded exploration of histories (ImportName/ImportNames/ImportAlias/Anon/PackagePrefix/CgoPreamble/add/render in any order) over a collision-rich universe of import paths (shared base names, keywords, digits, unicode, leading punctuation, upper case, trailing slashes, std pairs, the cgo pseudo-package). Every successfully rendered File is read back: the import block's bindings (alias, or the package's true declared name when no alias is written) must bind the qualifier in front of each workload symbol to the path it was built with, uniquely and consistently; an import block that does not parse binds nothing; go/types with fabricated packages gives a second opinion on scoping.",
  note="Declared names of fabricated packages are chosen by the workload, those of std packages are Go facts checked against GOROOT/src by selftest; dot-aliases are outside the statement (C06) and not generated; a render that returns an error is outside the statement and only counted (vacuity guard at 20%)."),
"C08": dict(engine="filesim", cat="exploration", ref="DESIGN.md 5.3",
  technique="deterministic simulation: seeded operation histories on one File (renders, fragment renders, additions, late hints, failing writers) with simulator-chosen map order changing between renders; idempotence and name-stability oracle over the recorded history",
  text="Seeded exploration of histories over one File and its fragments (File.Render/GoString, Statement/Group.RenderWithFile and Render, f.Group.RenderWithFile, Add, additions inside function bodies, late ImportName/ImportAlias incl. dot, late PackagePrefix, Anon on not-yet-referenced paths, failing writers, failure bursts). R1: two renders of one object with nothing state-changing in between are byte-identical and end the same way; R2: the qualifier a path first appeared under is used by every later output and bound by every later import block; R3: a failed write changes neither; R4: what was added to the File shows in every later render.",
  note="Trusts go/scanner/go/parser to read names out of outputs; stays inside the stated domain (Anon only on never-referenced paths). Equal-text Dict keys and Dict-key registration order are open findings shared with C07."),
"C07": dict(engine="filesim", cat="exploration", ref="DESIGN.md 5.2",
  technique="deterministic simulation: seeded search over map-iteration orders (content-addressed permutation decisions for every map range of package jen), repeated fresh builds from pristine and from polluted process state, byte comparison; cross-process leg on the unrewritten package with forward/reverse process histories, differences pinned back into simulation",
  text="Each run builds one generated File history K times from scratch; every execution gets its own order for every map range in package jen, odd executions start after unrelated Files were built (sometimes into failing writers) from pristine package state; all rendered bytes are compared. A second leg builds order-independent recipes in fresh processes of the unrewritten package (real map order, real addresses, forward and reverse histories); the determinism gate's own cross-process comparison of rendered bytes also counts. Sampling, not proof.",
  note="Trusts the AST rewrite (any permutation of a key snapshot is an order Go allows), go/format, and that map order is the only incidental state (address order is perturbed between builds but not controlled). Two open findings in known_findings.json are attributed by neutralising exactly their trigger."),
"C16": dict(engine="filesim", cat="exploration", ref="DESIGN.md 5.4",
  technique="deterministic simulation: seeded Dicts rendered under simulator-chosen iteration orders of every map range, parsed pairs checked against a list model with unique value markers",
  text="Seeded exploration of Dict shapes (0..16 pairs, equal-text keys, prefix chains, null sides, values filled in between two renders, nesting in keys and values, map/struct/slice contexts, awkward string literals) x iteration orders; oracle parses every render and compares the multiset and order of (key atoms, value marker) pairs with the model as it stands at that point of the history.",
  note="Trusts go/parser and the rewrite; key identity is compared by the multiset of identifiers/literals in the key (independent of import aliases), so two keys with identical atoms are interchangeable for the oracle."),
}
def main():
    checks=[]
    for pid,c in sorted(CLAIMED.items()):
        checks.append({
          "property_id":pid,
          "quick_cmd":f"bin/check {pid} quick",
          "thorough_cmd":f"bin/check {pid} thorough",
          "evidence_file":f"/verif/evidence/{pid}.json",
          "replay_cmd_template":"bin/check replay {path}",
          "engine":c["engine"],
          "level_claimed":{"category":c["cat"],"text":c["text"],"design_ref":c["ref"]},
          "level_note":c["note"],
          "technique":c["technique"],
        })
    na=[{"property_id":k,"reason":v} for k,v in sorted(NA.items())]
    na+=[{"property_id":k,"reason":v} for k,v in sorted(PENDING.items()) if k not in CLAIMED]
    m={
     "version":1,
     "setup_cmd":"bin/setup",
     "hooks":{"guard":"none: seams are inserted by AST-rewriting a scratch copy of package jen at check time (sim/cmd/simrewrite); nothing guarded is committed to /repo",
              "enable":"bin/check rsyncs /repo's working tree to a scratch dir, runs simrewrite on package jen there and builds the runner against that copy",
              "baseline_off_cmd":"cd /repo && go test -vet=off -count=1 ./...",
              "source_commits":[], "add_only":True},
     "engines":[
       {"name":"filesim","path":"sim/runner","serves_properties":["C03","C07","C08","C10","C16"],"kind_free_text":"single-task deterministic simulation of a File's life: seeded operation history, simulator-owned map iteration order, fault-injecting io.Writer and os layer, explicit decision log, minimiser, replay"},
       {"name":"concsim","path":"sim/runner","serves_properties":["C09"],"kind_free_text":"cooperative baton scheduler over real goroutines with a yield before every statement of package jen; seeded random-walk and PCT strategies"},
       {"name":"clonesim","path":"sim/runner","serves_properties":["C20"],"kind_free_text":"logical actors (original and clones) on one goroutine; seeded choice of which actor appends next"},
       {"name":"simrewrite","path":"sim/cmd/simrewrite","serves_properties":["C03","C07","C08","C09","C10","C16"],"kind_free_text":"go/ast+go/types source rewriter that inserts the seams into a scratch copy"},
     ],
     "checks":checks,
     "notes":"deterministic simulation with fault injection; see DESIGN.md. Exit codes: 0 held, 1 VIOLATION, 2 machinery trouble.",
     "not_applicable":na,
    }
    json.dump(m,open(os.path.join(ROOT,"MANIFEST.json"),"w"),indent=1)
main()
