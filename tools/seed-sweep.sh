#!/bin/bash
# tools/seed-sweep.sh [seeds...]   every quick check under several VERIF_SEED values on the unchanged tree: all must exit 0
cd "$(dirname "$0")/.."
seeds="${*:-2 3 5 8 13 21 20261004 18446744073709551615}"
bad=0
for s in $seeds; do
  for p in C03 C07 C08 C09 C10 C16 C20; do
    out=$(VERIF_SEED=$s bin/check $p quick 2>&1); rc=$?
    echo "seed=$s $p exit=$rc $(echo "$out" | tail -1 | cut -c1-160)"
    if [ $rc != 0 ]; then bad=1; echo "$out" | grep -v "^KNOWN" | tail -8 | cut -c1-300; fi
  done
done
# evidence files were rewritten by these runs with other seeds; leave that to the caller
exit $bad
