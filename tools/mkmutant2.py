#!/usr/bin/env python3
"""mkmutant2.py <name> <<< JSON [{"file":..., "old":..., "new":...}, ...]   (old=="" + file missing => new file; old=="^" => prepend after package clause)"""
import sys, json, subprocess, tempfile, os, shutil
name = sys.argv[1]
edits = json.load(sys.stdin)
d = tempfile.mkdtemp()
shutil.copytree("/repo/jen", os.path.join(d, "a/jen"))
shutil.copytree("/repo/jen", os.path.join(d, "b/jen"))
for e in edits:
    p = os.path.join(d, "b", e["file"])
    if not os.path.exists(p):
        open(p, "w").write(e["new"]); continue
    s = open(p).read()
    assert e["old"] in s, ("old text not found in " + e["file"], e["old"])
    open(p, "w").write(s.replace(e["old"], e["new"], 1))
out = subprocess.run(["diff", "-urN", "a/jen", "b/jen"], cwd=d, capture_output=True, text=True).stdout
open("/verif/mutants/%s.patch" % name, "w").write(out)
shutil.rmtree(d)
print(name, len(out.splitlines()), "lines")
