#!/bin/bash
# tools/seeded-verify.sh <outdir> <PROP> <n>   confirm a sub-agent's seeded change ((a) suite passes with it, (b) its demo fails
# with it, (c) its demo passes without it), run the property's quick check against it, and print one result line.
set -u
. "$(dirname "${BASH_SOURCE[0]}")/../bin/env.sh"
OUT="$1"; P="$2"; N="$3"; TIER="${4:-quick}"
D="$OUT/$N"
W=$(mktemp -d /tmp/seedv.XXXXXX)
trap 'rm -rf "$W"' EXIT
rsync -a --exclude .git /repo/ "$W/clean/"
rsync -a --exclude .git /repo/ "$W/mut/"
( cd "$W/mut" && patch -p1 -s < "$D/patch.diff" ) || { echo "SEEDED $P-$N: patch does not apply"; exit 3; }
a=fail; b=fail; c=fail
( cd "$W/mut" && go build ./... && go test -count=1 ./... >"$W/a.log" 2>&1 ) && a=ok
demo=$(ls "$D"/demo* | head -1)
case "$demo" in
  *_test.go) cp "$demo" "$W/mut/jen/seeded_demo_test.go"; cp "$demo" "$W/clean/jen/seeded_demo_test.go"
     ( cd "$W/mut" && go test -count=1 ./jen >"$W/b.log" 2>&1 ) || b=ok
     ( cd "$W/clean" && go test -count=1 ./jen >"$W/c.log" 2>&1 ) && c=ok ;;
  *) b=skip; c=skip ;;
esac
rm -f "$W/mut/jen/seeded_demo_test.go"
out=$(VERIF_REPO="$W/mut" VERIF_EVIDENCE_DIR="$W/evidence" "$VERIF_ROOT/bin/check" "$P" "$TIER" 2>&1); rc=$?
rule=$(echo "$out" | grep -m1 -A1 '^VIOLATION' | tail -1 | sed 's/^ *//' | cut -c1-160)
echo "SEEDED $P-$N a_suite_passes=$a b_demo_fails=$b c_demo_passes_clean=$c check_exit=$rc $rule"
[ -n "${SEEDED_VERBOSE:-}" ] && echo "$out" | tail -15
exit 0
