#!/bin/bash
# tools/equiv-run.sh <patch> [props...]   a behaviour-preserving refactor must leave every check at exit 0
cd "$(dirname "$0")/.."
patch="$1"; shift
props="${*:-C03 C07 C08 C09 C10 C16 C20}"
res=""
for p in $props; do
  out=$(tools/mutant-run.sh "$patch" "$p" quick 2>&1 | head -1)
  rc=$(echo "$out" | sed -n 's/.* exit=\([0-9]*\).*/\1/p')
  [ -z "$rc" ] && rc="?($(echo "$out" | cut -c1-60))"
  res="$res $p=$rc"
  [ "$rc" != 0 ] && echo "   $out" | cut -c1-400
done
echo "EQUIV $(basename $patch):$res"
