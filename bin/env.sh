# sourced by every script: offline Go environment
export GOFLAGS=-mod=mod GOPROXY=off GOSUMDB=off GOTOOLCHAIN=local
VERIF_ROOT="$(cd "$(dirname "${BASH_SOURCE[0]}")/.." && pwd)"
REPO="${VERIF_REPO:-/repo}"
