#!/bin/bash
# prepare.sh <scratch> [plain]  -- build the simulation runner(s) from $REPO's working tree into <scratch>
# exit 2 on any build trouble (never a VIOLATION)
set -u
. "$(dirname "${BASH_SOURCE[0]}")/env.sh"
S="$1"; WANT_PLAIN="${2:-}"
fail() { echo "prepare: $*" >&2; exit 2; }
mkdir -p "$S" || fail "mkdir"
rsync -a --delete --exclude .git "$REPO"/ "$S/jennifer/" || fail "rsync"
MOD=$(awk '$1=="module"{print $2; exit}' "$S/jennifer/go.mod")
[ -n "$MOD" ] || fail "no module path"
rm -rf "$S/jennifer/simhook"; cp -r "$VERIF_ROOT/sim/simhook" "$S/jennifer/simhook" || fail "copy simhook"
rm -rf "$S/sim"; mkdir -p "$S/sim"
rsync -a --exclude simhook "$VERIF_ROOT/sim/" "$S/sim/" || fail "copy sim"
cp "$S/jennifer/go.sum" "$S/sim/go.sum" 2>/dev/null || true
if [ "$MOD" != "github.com/dave/jennifer" ]; then fail "unexpected module path $MOD"; fi
if [ -n "$WANT_PLAIN" ]; then
  rm -rf "$S/plain"; cp -r "$S/jennifer" "$S/plain" || fail "copy plain"
fi
( cd "$S/sim" && go build -o "$S/simrewrite" ./cmd/simrewrite ) || fail "build simrewrite"
"$S/simrewrite" -dir "$S/jennifer/jen" -mod "$MOD" -sites "$S/sites.json" > "$S/rewrite.log" 2>&1 || { cat "$S/rewrite.log" >&2; fail "simrewrite"; }
( cd "$S/sim" && go build -o "$S/simrun" ./runner ) > "$S/build.log" 2>&1 || { cat "$S/build.log" >&2; fail "build runner (rewritten)"; }
if [ -n "$WANT_PLAIN" ]; then
  rm -rf "$S/simplain"; cp -r "$S/sim" "$S/simplain"
  sed -i 's#=> ../jennifer#=> ../plain#' "$S/simplain/go.mod"
  ( cd "$S/simplain" && go build -o "$S/simrun-plain" ./runner ) > "$S/build-plain.log" 2>&1 || { cat "$S/build-plain.log" >&2; fail "build runner (plain)"; }
  if [ "$WANT_PLAIN" = race ]; then
    ( cd "$S/simplain" && go build -race -o "$S/simrun-race" ./runner ) > "$S/build-race.log" 2>&1 || { cat "$S/build-race.log" >&2; fail "build runner (race)"; }
  fi
fi
exit 0
