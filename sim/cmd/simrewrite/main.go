// simrewrite inserts the simulation seams into a scratch copy of package jen:
//
//	S1  every range over a map -> range over simhook.MapKeys (order chosen by the simulator)
//	S4  simhook.Yield(site) before every statement
//	S3  os.* entry points and *os.File methods -> simhook wrappers
//
// and generates zz_simgen.go (site tables, accessor for package-level variables).
// Usage: simrewrite -dir <scratch>/jennifer/jen -mod github.com/dave/jennifer -sites <file>
// Exit 2 on anything it cannot do faithfully.
package main

import (
	"bytes"
	"encoding/json"
	"flag"
	"fmt"
	"go/ast"
	"go/build"
	"go/importer"
	"go/parser"
	"go/printer"
	"go/token"
	"go/types"
	"os"
	"path/filepath"
	"sort"
	"strconv"
	"strings"
)

func die(format string, a ...interface{}) {
	fmt.Fprintf(os.Stderr, "simrewrite: "+format+"\n", a...)
	os.Exit(2)
}

var osFuncs = map[string]string{
	"WriteFile": "OSWriteFile", "Create": "OSCreate", "OpenFile": "OSOpenFile",
	"CreateTemp": "OSCreateTemp", "Rename": "OSRename", "Remove": "OSRemove",
	"MkdirAll": "OSMkdirAll", "Mkdir": "OSMkdir", "Chmod": "OSChmod", "Truncate": "OSTruncate",
}
var ioutilFuncs = map[string]string{"WriteFile": "OSWriteFile"}

// clock reads -> simulated clock; timers the simulator does not own are reported
var timeFuncs = map[string]string{"Now": "Now", "Since": "Since", "Until": "Until", "Sleep": "Sleep"}
var timeUnhandled = map[string]bool{"After": true, "AfterFunc": true, "NewTimer": true, "NewTicker": true, "Tick": true}
// blocking (or runtime-dependent) methods of package sync -> simulator-aware wrappers
var syncMethods = map[string]string{
	"Mutex.Lock": "MutexLock", "RWMutex.Lock": "RWMutexLock", "RWMutex.RLock": "RWMutexRLock",
	"Once.Do": "OnceDo", "Pool.Get": "PoolGet", "Pool.Put": "PoolPut",
}

// blocking sync methods the simulator cannot own
var syncUnhandled = map[string]bool{"WaitGroup.Wait": true, "Cond.Wait": true}

var fileMethods = map[string]string{"Write": "FileWrite", "WriteString": "FileWriteString", "Close": "FileClose", "Sync": "FileSync"}

// os functions that touch the filesystem or process state and have no wrapper
var osMutatingUnwrapped = map[string]bool{
	"RemoveAll": true, "Symlink": true, "Link": true, "Chown": true, "Lchown": true, "Chtimes": true,
	"MkdirTemp": true, "NewFile": true, "Open": true, "Exit": true, "Setenv": true, "Unsetenv": true, "Chdir": true,
}

type site struct {
	ID   int    `json:"id"`
	Kind string `json:"kind"` // "stmt" | "map"
	Pos  string `json:"pos"`
	Func string `json:"func,omitempty"`
}

type rewriter struct {
	fset      *token.FileSet
	info      *types.Info
	sites     []site
	nextSite  int
	mapSites  map[int]string
	usesHook  map[*ast.File]bool
	curFile   *ast.File
	curFunc   string
	spawns    int
	chanOps   int
	unwrapped map[string]int
	osCalls   int
	fileCalls int
	syncCalls int
	timeCalls int
	mapRanges int
	yields    int
}

func (r *rewriter) newSite(kind string, pos token.Pos) int {
	r.nextSite++
	p := r.fset.Position(pos)
	r.sites = append(r.sites, site{ID: r.nextSite, Kind: kind, Pos: fmt.Sprintf("%s:%d", filepath.Base(p.Filename), p.Line), Func: r.curFunc})
	return r.nextSite
}

func hookSel(name string) *ast.SelectorExpr {
	return &ast.SelectorExpr{X: ast.NewIdent("simhook"), Sel: ast.NewIdent(name)}
}

func (r *rewriter) yieldStmt(pos token.Pos) ast.Stmt {
	id := r.newSite("stmt", pos)
	r.yields++
	r.usesHook[r.curFile] = true
	return &ast.ExprStmt{X: &ast.CallExpr{Fun: hookSel("Yield"), Args: []ast.Expr{&ast.BasicLit{Kind: token.INT, Value: strconv.Itoa(id)}}}}
}

// isMapRange reports whether s ranges over a map.
func (r *rewriter) isMapRange(s *ast.RangeStmt) bool {
	t := r.info.TypeOf(s.X)
	if t == nil {
		die("no type for range operand at %s", r.fset.Position(s.X.Pos()))
	}
	_, ok := t.Underlying().(*types.Map)
	return ok
}

func isBlank(e ast.Expr) bool {
	if e == nil {
		return true
	}
	id, ok := e.(*ast.Ident)
	return ok && id.Name == "_"
}

// rewriteRange turns a map range into a range over a simulator-ordered key snapshot.
func (r *rewriter) rewriteRange(s *ast.RangeStmt, label *ast.Ident) ast.Stmt {
	id := r.newSite("map", s.Pos())
	r.mapRanges++
	r.mapSites[id] = r.curFunc + "@" + r.sites[len(r.sites)-1].Pos
	r.usesHook[r.curFile] = true
	sfx := strconv.Itoa(id)
	m := ast.NewIdent("simM" + sfx)
	k := ast.NewIdent("simK" + sfx)
	v := ast.NewIdent("simV" + sfx)
	ok := ast.NewIdent("simOk" + sfx)
	lit := &ast.BasicLit{Kind: token.INT, Value: sfx}

	var pre []ast.Stmt
	pre = append(pre, &ast.AssignStmt{Lhs: []ast.Expr{m}, Tok: token.DEFINE, Rhs: []ast.Expr{s.X}})
	assignTok := token.ASSIGN
	if s.Tok == token.DEFINE {
		// per-loop variables, as the language version of the module (go 1.20) has them
		if !isBlank(s.Key) {
			pre = append(pre, &ast.DeclStmt{Decl: &ast.GenDecl{Tok: token.VAR, Specs: []ast.Spec{&ast.ValueSpec{
				Names: []*ast.Ident{ast.NewIdent(s.Key.(*ast.Ident).Name)}, Values: []ast.Expr{&ast.CallExpr{Fun: hookSel("ZeroK"), Args: []ast.Expr{m}}}}}}})
		}
		if !isBlank(s.Value) {
			pre = append(pre, &ast.DeclStmt{Decl: &ast.GenDecl{Tok: token.VAR, Specs: []ast.Spec{&ast.ValueSpec{
				Names: []*ast.Ident{ast.NewIdent(s.Value.(*ast.Ident).Name)}, Values: []ast.Expr{&ast.CallExpr{Fun: hookSel("ZeroV"), Args: []ast.Expr{m}}}}}}})
		}
	}
	var body []ast.Stmt
	cont := &ast.BlockStmt{List: []ast.Stmt{&ast.BranchStmt{Tok: token.CONTINUE}}}
	lookup := &ast.IndexExpr{X: m, Index: k}
	if isBlank(s.Value) {
		body = append(body, &ast.IfStmt{
			Init: &ast.AssignStmt{Lhs: []ast.Expr{ast.NewIdent("_"), ok}, Tok: token.DEFINE, Rhs: []ast.Expr{lookup}},
			Cond: &ast.UnaryExpr{Op: token.NOT, X: ok}, Body: cont})
	} else {
		body = append(body,
			&ast.AssignStmt{Lhs: []ast.Expr{v, ok}, Tok: token.DEFINE, Rhs: []ast.Expr{lookup}},
			&ast.IfStmt{Cond: &ast.UnaryExpr{Op: token.NOT, X: ok}, Body: cont})
	}
	if !isBlank(s.Key) {
		body = append(body, &ast.AssignStmt{Lhs: []ast.Expr{s.Key}, Tok: assignTok, Rhs: []ast.Expr{k}})
	}
	if !isBlank(s.Value) {
		body = append(body, &ast.AssignStmt{Lhs: []ast.Expr{s.Value}, Tok: assignTok, Rhs: []ast.Expr{v}})
	}
	body = append(body, s.Body.List...)
	loop := &ast.RangeStmt{
		Key: ast.NewIdent("_"), Value: k, Tok: token.DEFINE,
		X:    &ast.CallExpr{Fun: hookSel("MapKeys"), Args: []ast.Expr{m, lit}},
		Body: &ast.BlockStmt{List: body},
	}
	var loopStmt ast.Stmt = loop
	if label != nil {
		loopStmt = &ast.LabeledStmt{Label: label, Stmt: loop}
	}
	return &ast.BlockStmt{List: append(pre, loopStmt)}
}

// processList inserts yields and rewrites map ranges in one statement list.
func (r *rewriter) processList(list []ast.Stmt) []ast.Stmt {
	out := make([]ast.Stmt, 0, 2*len(list))
	for _, s := range list {
		r.processStmt(s) // children first (bodies get their own yields)
		out = append(out, r.yieldStmt(s.Pos()))
		switch t := s.(type) {
		case *ast.RangeStmt:
			if r.isMapRange(t) {
				out = append(out, r.rewriteRange(t, nil))
				continue
			}
		case *ast.LabeledStmt:
			if rs, ok := t.Stmt.(*ast.RangeStmt); ok && r.isMapRange(rs) {
				out = append(out, r.rewriteRange(rs, t.Label))
				continue
			}
		}
		out = append(out, s)
	}
	return out
}

// processStmt descends into a statement, rewriting every nested statement list.
func (r *rewriter) processStmt(s ast.Stmt) {
	switch t := s.(type) {
	case nil:
	case *ast.BlockStmt:
		r.processExprsIn(t) // no-op placeholder for symmetry
		t.List = r.processList(t.List)
	case *ast.IfStmt:
		r.processStmt(t.Init)
		r.processExpr(t.Cond)
		r.processStmt(t.Body)
		r.processStmt(t.Else)
	case *ast.ForStmt:
		r.processStmt(t.Init)
		r.processExpr(t.Cond)
		r.processStmt(t.Post)
		r.processStmt(t.Body)
	case *ast.RangeStmt:
		r.processExpr(t.X)
		r.processStmt(t.Body)
	case *ast.SwitchStmt:
		r.processStmt(t.Init)
		r.processExpr(t.Tag)
		r.processClauses(t.Body)
	case *ast.TypeSwitchStmt:
		r.processStmt(t.Init)
		r.processStmt(t.Assign)
		r.processClauses(t.Body)
	case *ast.SelectStmt:
		r.chanOps++
		r.processClauses(t.Body)
	case *ast.LabeledStmt:
		r.processStmt(t.Stmt)
	case *ast.GoStmt:
		r.spawns++
		r.processExpr(t.Call)
	case *ast.DeferStmt:
		r.processExpr(t.Call)
	case *ast.SendStmt:
		r.chanOps++
		r.processExpr(t.Chan)
		r.processExpr(t.Value)
	case *ast.ExprStmt:
		r.processExpr(t.X)
	case *ast.AssignStmt:
		for _, e := range t.Lhs {
			r.processExpr(e)
		}
		for _, e := range t.Rhs {
			r.processExpr(e)
		}
	case *ast.ReturnStmt:
		for _, e := range t.Results {
			r.processExpr(e)
		}
	case *ast.IncDecStmt:
		r.processExpr(t.X)
	case *ast.DeclStmt:
		if gd, ok := t.Decl.(*ast.GenDecl); ok {
			for _, sp := range gd.Specs {
				if vs, ok := sp.(*ast.ValueSpec); ok {
					for _, e := range vs.Values {
						r.processExpr(e)
					}
				}
			}
		}
	case *ast.CaseClause, *ast.CommClause:
		die("clause outside switch body at %s", r.fset.Position(s.Pos()))
	case *ast.BranchStmt, *ast.EmptyStmt:
	default:
		die("unhandled statement %T at %s", s, r.fset.Position(s.Pos()))
	}
}

func (r *rewriter) processExprsIn(*ast.BlockStmt) {}

func (r *rewriter) processClauses(body *ast.BlockStmt) {
	for _, c := range body.List {
		switch cc := c.(type) {
		case *ast.CaseClause:
			for _, e := range cc.List {
				r.processExpr(e)
			}
			cc.Body = r.processList(cc.Body)
		case *ast.CommClause:
			r.processStmtNoList(cc.Comm)
			cc.Body = r.processList(cc.Body)
		default:
			die("unexpected %T in clause list", c)
		}
	}
}

func (r *rewriter) processStmtNoList(s ast.Stmt) {
	if s != nil {
		r.processStmt(s)
	}
}

// processExpr finds function literals inside expressions (their bodies are
// statement lists) and counts channel receives.
func (r *rewriter) processExpr(e ast.Expr) {
	if e == nil {
		return
	}
	ast.Inspect(e, func(n ast.Node) bool {
		switch t := n.(type) {
		case *ast.FuncLit:
			saved := r.curFunc
			r.curFunc = saved + ".func"
			r.processStmt(t.Body)
			r.curFunc = saved
			return false
		case *ast.UnaryExpr:
			if t.Op == token.ARROW {
				r.chanOps++
			}
		}
		return true
	})
}

// rewriteOS replaces os entry points and *os.File method calls in a file.
func (r *rewriter) rewriteOS(f *ast.File) {
	var visit func(n ast.Node) bool
	replaceSel := func(sel *ast.SelectorExpr) (string, bool) {
		x, ok := sel.X.(*ast.Ident)
		if !ok {
			return "", false
		}
		pn, ok := r.info.Uses[x].(*types.PkgName)
		if !ok {
			return "", false
		}
		switch pn.Imported().Path() {
		case "os":
			if w, ok := osFuncs[sel.Sel.Name]; ok {
				return w, true
			}
			if osMutatingUnwrapped[sel.Sel.Name] {
				r.unwrapped["os."+sel.Sel.Name]++
			}
		case "io/ioutil":
			if w, ok := ioutilFuncs[sel.Sel.Name]; ok {
				return w, true
			}
		case "time":
			if w, ok := timeFuncs[sel.Sel.Name]; ok {
				r.timeCalls++
				return w, true
			}
			if timeUnhandled[sel.Sel.Name] {
				r.unwrapped["time."+sel.Sel.Name]++
			}
		}
		return "", false
	}
	visit = func(n ast.Node) bool {
		switch t := n.(type) {
		case *ast.CallExpr:
			if sel, ok := t.Fun.(*ast.SelectorExpr); ok {
				if s, ok := r.info.Selections[sel]; ok && s.Kind() == types.MethodVal {
					if recv, tn := r.syncReceiver(sel, s); tn != "" {
						key := tn + "." + sel.Sel.Name
						if w, ok := syncMethods[key]; ok {
							t.Fun = hookSel(w)
							t.Args = append([]ast.Expr{recv}, t.Args...)
							r.syncCalls++
							r.usesHook[f] = true
							return true
						}
						if syncUnhandled[key] {
							r.unwrapped["sync."+key]++
						}
					}
					if w, ok := fileMethods[sel.Sel.Name]; ok && isOSFilePtr(s.Recv()) {
						t.Fun = hookSel(w)
						t.Args = append([]ast.Expr{sel.X}, t.Args...)
						r.fileCalls++
						r.usesHook[f] = true
					}
				}
			}
		case *ast.SelectorExpr:
			if w, ok := replaceSel(t); ok {
				t.X = ast.NewIdent("simhook")
				t.Sel = ast.NewIdent(w)
				r.osCalls++
				r.usesHook[f] = true
			}
		}
		return true
	}
	ast.Inspect(f, visit)
}

// syncReceiver returns, for a method call on a type of package sync (directly or
// promoted through embedded fields), an expression of pointer type for the receiver
// and the type's name.
func (r *rewriter) syncReceiver(sel *ast.SelectorExpr, s *types.Selection) (ast.Expr, string) {
	fn, ok := s.Obj().(*types.Func)
	if !ok || fn.Pkg() == nil || fn.Pkg().Path() != "sync" {
		return nil, ""
	}
	sig := fn.Type().(*types.Signature)
	if sig.Recv() == nil {
		return nil, ""
	}
	rt := sig.Recv().Type()
	if p, ok := rt.(*types.Pointer); ok {
		rt = p.Elem()
	}
	named, ok := rt.(*types.Named)
	if !ok {
		return nil, ""
	}
	expr := sel.X
	cur := s.Recv()
	idx := s.Index()
	for _, fi := range idx[:len(idx)-1] { // promoted through embedded fields
		if p, ok := cur.Underlying().(*types.Pointer); ok {
			cur = p.Elem()
		}
		st, ok := cur.Underlying().(*types.Struct)
		if !ok {
			die("cannot follow embedded field path at %s", r.fset.Position(sel.Pos()))
		}
		fld := st.Field(fi)
		expr = &ast.SelectorExpr{X: expr, Sel: ast.NewIdent(fld.Name())}
		cur = fld.Type()
	}
	if _, isPtr := cur.Underlying().(*types.Pointer); !isPtr {
		expr = &ast.UnaryExpr{Op: token.AND, X: expr}
	}
	return expr, named.Obj().Name()
}

func isOSFilePtr(t types.Type) bool {
	p, ok := t.(*types.Pointer)
	if !ok {
		return false
	}
	n, ok := p.Elem().(*types.Named)
	if !ok {
		return false
	}
	return n.Obj().Pkg() != nil && n.Obj().Pkg().Path() == "os" && n.Obj().Name() == "File"
}

// fixImports drops import specs that have no remaining references and adds simhook.
func (r *rewriter) fixImports(f *ast.File, hookPath string) {
	used := map[*types.PkgName]bool{}
	ast.Inspect(f, func(n ast.Node) bool {
		if id, ok := n.(*ast.Ident); ok {
			if pn, ok := r.info.Uses[id].(*types.PkgName); ok {
				used[pn] = true
			}
		}
		return true
	})
	for _, d := range f.Decls {
		gd, ok := d.(*ast.GenDecl)
		if !ok || gd.Tok != token.IMPORT {
			continue
		}
		var keep []ast.Spec
		for _, sp := range gd.Specs {
			is := sp.(*ast.ImportSpec)
			if is.Name != nil && (is.Name.Name == "_" || is.Name.Name == ".") {
				keep = append(keep, sp)
				continue
			}
			var pn *types.PkgName
			if is.Name != nil {
				pn, _ = r.info.Defs[is.Name].(*types.PkgName)
			} else {
				pn, _ = r.info.Implicits[is].(*types.PkgName)
			}
			if pn != nil && !used[pn] {
				continue
			}
			keep = append(keep, sp)
		}
		gd.Specs = keep
	}
	if r.usesHook[f] {
		spec := &ast.ImportSpec{Name: ast.NewIdent("simhook"), Path: &ast.BasicLit{Kind: token.STRING, Value: strconv.Quote(hookPath)}}
		f.Decls = append([]ast.Decl{&ast.GenDecl{Tok: token.IMPORT, Specs: []ast.Spec{spec}}}, f.Decls...)
	}
	// remove import decls left empty
	var decls []ast.Decl
	for _, d := range f.Decls {
		if gd, ok := d.(*ast.GenDecl); ok && gd.Tok == token.IMPORT && len(gd.Specs) == 0 {
			continue
		}
		decls = append(decls, d)
	}
	f.Decls = decls
}

func main() {
	dir := flag.String("dir", "", "directory of package jen in the scratch copy")
	mod := flag.String("mod", "github.com/dave/jennifer", "module path of the scratch copy")
	sitesOut := flag.String("sites", "", "where to write the site table (json)")
	flag.Parse()
	if *dir == "" {
		die("-dir required")
	}
	bp, err := build.Default.ImportDir(*dir, 0)
	if err != nil {
		die("import dir: %v", err)
	}
	if len(bp.CgoFiles) > 0 {
		die("package uses cgo; refusing")
	}
	fset := token.NewFileSet()
	var files []*ast.File
	var names []string
	for _, name := range bp.GoFiles {
		if name == "zz_simgen.go" {
			die("already rewritten")
		}
		path := filepath.Join(*dir, name)
		src, err := os.ReadFile(path)
		if err != nil {
			die("%v", err)
		}
		if bytes.Contains(src, []byte("//go:embed")) || bytes.Contains(src, []byte("//go:linkname")) {
			die("%s uses a compiler directive the rewriter would drop; refusing", name)
		}
		f, err := parser.ParseFile(fset, path, src, parser.SkipObjectResolution)
		if err != nil {
			die("parse %s: %v", name, err)
		}
		files = append(files, f)
		names = append(names, name)
	}
	info := &types.Info{
		Types: map[ast.Expr]types.TypeAndValue{}, Uses: map[*ast.Ident]types.Object{}, Defs: map[*ast.Ident]types.Object{},
		Implicits: map[ast.Node]types.Object{}, Selections: map[*ast.SelectorExpr]*types.Selection{},
	}
	conf := types.Config{Importer: importer.ForCompiler(fset, "source", nil)}
	pkg, err := conf.Check(bp.ImportPath, fset, files, info)
	if err != nil {
		die("type-check: %v", err)
	}
	r := &rewriter{fset: fset, info: info, mapSites: map[int]string{}, usesHook: map[*ast.File]bool{}, unwrapped: map[string]int{}}
	hasSync := false
	for _, imp := range pkg.Imports() {
		if imp.Path() == "sync" || imp.Path() == "sync/atomic" {
			hasSync = true
		}
	}
	for _, f := range files {
		r.curFile = f
		r.rewriteOS(f)
		for _, d := range f.Decls {
			switch t := d.(type) {
			case *ast.FuncDecl:
				if t.Body == nil {
					continue
				}
				r.curFunc = t.Name.Name
				if t.Recv != nil && len(t.Recv.List) == 1 {
					r.curFunc = types.ExprString(t.Recv.List[0].Type) + "." + t.Name.Name
				}
				r.processStmt(t.Body)
			case *ast.GenDecl:
				// function literals in package-level initialisers
				r.curFunc = "init"
				for _, sp := range t.Specs {
					if vs, ok := sp.(*ast.ValueSpec); ok {
						for _, e := range vs.Values {
							r.processExpr(e)
						}
					}
				}
			}
		}
	}
	hookPath := *mod + "/simhook"
	for i, f := range files {
		r.fixImports(f, hookPath)
		var buf bytes.Buffer
		if err := (&printer.Config{Mode: printer.UseSpaces | printer.TabIndent, Tabwidth: 8}).Fprint(&buf, token.NewFileSet(), f); err != nil {
			die("print %s: %v", names[i], err)
		}
		if err := os.WriteFile(filepath.Join(*dir, names[i]), buf.Bytes(), 0644); err != nil {
			die("%v", err)
		}
	}
	// files not selected by the build configuration stay as they are (their constraints keep them out)

	// generated file
	var globals []string
	scope := pkg.Scope()
	for _, n := range scope.Names() {
		if v, ok := scope.Lookup(n).(*types.Var); ok && n != "_" {
			globals = append(globals, v.Name())
		}
	}
	sort.Strings(globals)
	var g bytes.Buffer
	fmt.Fprintf(&g, "// Code generated by simrewrite. DO NOT EDIT.\n\npackage %s\n\nimport simhook %q\n\nfunc init() {\n", pkg.Name(), hookPath)
	fmt.Fprintf(&g, "\tsimhook.SetNumSites(%d)\n", r.nextSite)
	if r.spawns > 0 {
		fmt.Fprintf(&g, "\tsimhook.Concurrent = true // package jen starts %d goroutine(s) of its own\n", r.spawns)
	}
	fmt.Fprintf(&g, "\tsimhook.MapSites = map[int]string{\n")
	var ids []int
	for id := range r.mapSites {
		ids = append(ids, id)
	}
	sort.Ints(ids)
	for _, id := range ids {
		fmt.Fprintf(&g, "\t\t%d: %q,\n", id, r.mapSites[id])
	}
	fmt.Fprintf(&g, "\t}\n")
	var unw []string
	for k, n := range r.unwrapped {
		unw = append(unw, fmt.Sprintf("%s=%d", k, n))
	}
	sort.Strings(unw)
	meta := map[string]string{
		"pkg_has_sync":           strconv.FormatBool(hasSync),
		"pkg_spawns_goroutines":  strconv.Itoa(r.spawns),
		"pkg_chan_ops":           strconv.Itoa(r.chanOps),
		"map_range_sites":        strconv.Itoa(r.mapRanges),
		"yield_sites":            strconv.Itoa(r.yields),
		"os_calls_redirected":    strconv.Itoa(r.osCalls),
		"file_methods_redirected": strconv.Itoa(r.fileCalls),
		"sync_calls_redirected":   strconv.Itoa(r.syncCalls),
		"time_calls_redirected":   strconv.Itoa(r.timeCalls),
		"unintercepted_os_calls": strings.Join(unw, ","),
		"package_vars":           strings.Join(globals, ","),
	}
	var mk []string
	for k := range meta {
		mk = append(mk, k)
	}
	sort.Strings(mk)
	fmt.Fprintf(&g, "\tsimhook.Meta = map[string]string{\n")
	for _, k := range mk {
		fmt.Fprintf(&g, "\t\t%q: %q,\n", k, meta[k])
	}
	fmt.Fprintf(&g, "\t}\n")
	fmt.Fprintf(&g, "\tsimhook.Globals = func() map[string]interface{} {\n\t\treturn map[string]interface{}{\n")
	for _, n := range globals {
		fmt.Fprintf(&g, "\t\t\t%q: &%s,\n", n, n)
	}
	fmt.Fprintf(&g, "\t\t}\n\t}\n}\n")
	if err := os.WriteFile(filepath.Join(*dir, "zz_simgen.go"), g.Bytes(), 0644); err != nil {
		die("%v", err)
	}
	if *sitesOut != "" {
		b, _ := json.Marshal(map[string]interface{}{"sites": r.sites, "meta": meta})
		if err := os.WriteFile(*sitesOut, b, 0644); err != nil {
			die("%v", err)
		}
	}
	fmt.Printf("simrewrite: %d yield sites, %d map ranges, %d os calls, %d file-method calls, sync=%v, go-stmts=%d, globals=%d\n",
		r.yields, r.mapRanges, r.osCalls, r.fileCalls, hasSync, r.spawns, len(globals))
}
