// Package simhook is the seam between the rewritten copy of package jen and the
// simulator. It is copied into the scratch copy of jennifer at check time (as
// github.com/dave/jennifer/simhook); nothing in /repo ever imports it.
//
// With no simulation installed every hook is a pass-through (plus a counter).
package simhook

import (
	"os"
	"reflect"
	"sort"
	"sync"
	"time"
)

// Sim is what a running simulation installs.
type Sim interface {
	// Perm returns the permutation to apply to the n canonically ordered keys of a
	// map range at site (nil = identity). len(result) must be n. h is a hash of the
	// canonically ordered keys: decisions are addressed by content, not by how many map
	// ranges happened before (a cache that copies a map must not shift every later decision).
	Perm(site, n int, h uint64) []int
	// Yield is called before every statement of package jen.
	Yield(site int)
	// FS is consulted before each intercepted filesystem call. A non-nil error is
	// returned to jennifer instead of performing the call. For op "WriteFile" a
	// non-negative partial asks the wrapper to write only that many bytes first.
	FS(op, name string, size int) (partial int, err error)
	// Blocked is called by a task that could not take a lock: the scheduler must let
	// another task run (a single-task simulation treats it as a deadlock).
	Blocked(what string)
	// Coin is a cooperative fault point ("buggify"): a legal but unusual behaviour is
	// taken when it returns true.
	Coin(kind string) bool
}

// Cur is the installed simulation (nil = none). Only one simulation lives in a
// process at a time.
var Cur Sim

// ---- statement sites -------------------------------------------------------

// Hits counts passages per statement site.
var Hits []uint64

// Steps counts all Yield passages.
var Steps uint64

// NumSites is set by the generated init in package jen.
var NumSites int

// MapSites lists, per map-range site id, "File.func:line"; set by the generated init.
var MapSites map[int]string

// Meta is filled by generated code: facts about the rewritten package.
var Meta = map[string]string{}

func SetNumSites(n int) {
	NumSites = n
	Hits = make([]uint64, n+1)
}

// Concurrent is set by the generated init when package jen starts goroutines of its
// own. They run outside any baton, so every entry into the simulator is serialised by
// one lock and the simulation only claims what does not depend on their interleaving.
var Concurrent bool
var big sync.Mutex

func Yield(site int) {
	if Concurrent {
		big.Lock()
		defer big.Unlock()
	}
	Steps++
	if site < len(Hits) {
		Hits[site]++
	}
	if Cur != nil {
		Cur.Yield(site)
	}
}

// ---- map iteration ---------------------------------------------------------

// KeyIndex gives the canonical index of a non-string map key (registered by the
// workload for Dict keys).
var KeyIndex map[interface{}]int

// Uncontrolled counts map ranges whose keys could not be put in a canonical
// order (must stay 0 for a run to be replayable).
var Uncontrolled int

// MapCalls counts MapKeys calls per site, and those with n>=2.
var MapCalls = map[int]int{}
var MapCallsMulti = map[int]int{}
var MapNonIdentity = map[int]int{}

// keyMu guards KeyIndex: the workload registers keys from many goroutines in the
// real-parallel race leg (package jen itself never touches it there).
var keyMu sync.Mutex

func RegisterKey(k interface{}, idx int) {
	keyMu.Lock()
	if KeyIndex == nil {
		KeyIndex = map[interface{}]int{}
	}
	KeyIndex[k] = idx
	keyMu.Unlock()
}

func ResetKeys() {
	keyMu.Lock()
	KeyIndex = nil
	keyMu.Unlock()
}

// MapKeys snapshots the keys of m in a canonical order and applies the
// permutation chosen by the simulation.
func MapKeys[K comparable, V any](m map[K]V, site int) []K {
	if Concurrent {
		big.Lock()
		defer big.Unlock()
	}
	keys := make([]K, 0, len(m))
	for k := range m {
		keys = append(keys, k)
	}
	MapCalls[site]++
	if len(keys) < 2 {
		return keys
	}
	MapCallsMulti[site]++
	h := canonical(keys)
	if Cur != nil {
		p := Cur.Perm(site, len(keys), h)
		if p != nil {
			if len(p) != len(keys) {
				panic("simhook: bad permutation length")
			}
			out := make([]K, len(keys))
			ident := true
			for i, j := range p {
				out[i] = keys[j]
				if i != j {
					ident = false
				}
			}
			if !ident {
				MapNonIdentity[site]++
			}
			return out
		}
	}
	return keys
}

func fnv(h uint64, b string) uint64 {
	for i := 0; i < len(b); i++ {
		h ^= uint64(b[i])
		h *= 1099511628211
	}
	h ^= 0xff
	h *= 1099511628211
	return h
}

func fnvInt(h uint64, x uint64) uint64 {
	for i := 0; i < 8; i++ {
		h ^= x & 0xff
		h *= 1099511628211
		x >>= 8
	}
	return h
}

// canonical puts keys into an order that does not depend on the runtime and returns a
// hash of them in that order.
func canonical[K comparable](keys []K) uint64 {
	h := uint64(14695981039346656037)
	if ks, ok := interface{}(keys).([]string); ok {
		sort.Strings(ks)
		for _, k := range ks {
			h = fnv(h, k)
		}
		return h
	}
	var zero K
	switch reflect.TypeOf(&zero).Elem().Kind() {
	case reflect.String:
		sort.SliceStable(keys, func(i, j int) bool {
			return reflect.ValueOf(keys[i]).String() < reflect.ValueOf(keys[j]).String()
		})
		for _, k := range keys {
			h = fnv(h, reflect.ValueOf(k).String())
		}
		return h
	case reflect.Int, reflect.Int8, reflect.Int16, reflect.Int32, reflect.Int64:
		sort.SliceStable(keys, func(i, j int) bool {
			return reflect.ValueOf(keys[i]).Int() < reflect.ValueOf(keys[j]).Int()
		})
		for _, k := range keys {
			h = fnvInt(h, uint64(reflect.ValueOf(k).Int()))
		}
		return h
	case reflect.Uint, reflect.Uint8, reflect.Uint16, reflect.Uint32, reflect.Uint64, reflect.Uintptr:
		sort.SliceStable(keys, func(i, j int) bool {
			return reflect.ValueOf(keys[i]).Uint() < reflect.ValueOf(keys[j]).Uint()
		})
		for _, k := range keys {
			h = fnvInt(h, reflect.ValueOf(k).Uint())
		}
		return h
	}
	// registry order
	idx := make([]int, len(keys))
	keyMu.Lock()
	defer keyMu.Unlock()
	for i, k := range keys {
		n, ok := KeyIndex[interface{}(k)]
		if !ok {
			Uncontrolled++
			return h // leave runtime order; the run is flagged as not replayable
		}
		idx[i] = n
	}
	sort.Sort(&byIdx[K]{keys, idx})
	for _, n := range idx {
		h = fnvInt(h, uint64(n))
	}
	return h
}

type byIdx[K any] struct {
	keys []K
	idx  []int
}

func (b *byIdx[K]) Len() int           { return len(b.keys) }
func (b *byIdx[K]) Less(i, j int) bool { return b.idx[i] < b.idx[j] }
func (b *byIdx[K]) Swap(i, j int) {
	b.keys[i], b.keys[j] = b.keys[j], b.keys[i]
	b.idx[i], b.idx[j] = b.idx[j], b.idx[i]
}

// ZeroK / ZeroV let rewritten code declare per-loop variables without naming types.
func ZeroK[K comparable, V any](m map[K]V) (k K) { return }
func ZeroV[K comparable, V any](m map[K]V) (v V) { return }

// ---- filesystem ------------------------------------------------------------

// Hot > 0 marks the next yields as lying right after an operation with in-flight state
// (a filesystem call, a lock, a pool operation): a scheduler that wants to preempt where
// it hurts looks here. Counted down by the scheduler.
var Hot int

// FSCall is one intercepted filesystem call.
type FSCall struct {
	Op      string
	Name    string
	Size    int
	Partial int    // -1 unless a partial write was injected
	Injected string // injected error text, "" if none
	Err     string // error returned to jennifer
}

var FSLog []FSCall

// Unintercepted counts os entry points the rewriter saw but has no wrapper for.
func logFS(op, name string, size, partial int, injected, err error) {
	if Concurrent {
		big.Lock()
		defer big.Unlock()
	}
	c := FSCall{Op: op, Name: name, Size: size, Partial: partial}
	if injected != nil {
		c.Injected = injected.Error()
	}
	if err != nil {
		c.Err = err.Error()
	}
	FSLog = append(FSLog, c)
	Hot = 2
}

func consult(op, name string, size int) (int, error) {
	if Cur == nil {
		return -1, nil
	}
	if Concurrent {
		big.Lock()
		defer big.Unlock()
	}
	return Cur.FS(op, name, size)
}

func OSWriteFile(name string, data []byte, perm os.FileMode) error {
	partial, ierr := consult("WriteFile", name, len(data))
	if ierr != nil {
		if partial >= 0 {
			if partial > len(data) {
				partial = len(data)
			}
			// what a real ENOSPC/EIO looks like: the file is truncated, a prefix lands
			_ = os.WriteFile(name, data[:partial], perm)
		}
		logFS("WriteFile", name, len(data), partial, ierr, ierr)
		return ierr
	}
	err := os.WriteFile(name, data, perm)
	logFS("WriteFile", name, len(data), -1, nil, err)
	return err
}

func OSCreate(name string) (*os.File, error) {
	if _, ierr := consult("Create", name, 0); ierr != nil {
		logFS("Create", name, 0, -1, ierr, ierr)
		return nil, ierr
	}
	f, err := os.Create(name)
	logFS("Create", name, 0, -1, nil, err)
	return f, err
}

func OSOpenFile(name string, flag int, perm os.FileMode) (*os.File, error) {
	if _, ierr := consult("OpenFile", name, 0); ierr != nil {
		logFS("OpenFile", name, 0, -1, ierr, ierr)
		return nil, ierr
	}
	f, err := os.OpenFile(name, flag, perm)
	logFS("OpenFile", name, 0, -1, nil, err)
	return f, err
}

func OSCreateTemp(dir, pattern string) (*os.File, error) {
	if _, ierr := consult("CreateTemp", dir, 0); ierr != nil {
		logFS("CreateTemp", dir, 0, -1, ierr, ierr)
		return nil, ierr
	}
	f, err := os.CreateTemp(dir, pattern)
	logFS("CreateTemp", dir, 0, -1, nil, err)
	return f, err
}

func OSRename(oldpath, newpath string) error {
	if _, ierr := consult("Rename", newpath, 0); ierr != nil {
		logFS("Rename", newpath, 0, -1, ierr, ierr)
		return ierr
	}
	err := os.Rename(oldpath, newpath)
	logFS("Rename", newpath, 0, -1, nil, err)
	return err
}

func OSRemove(name string) error {
	if _, ierr := consult("Remove", name, 0); ierr != nil {
		logFS("Remove", name, 0, -1, ierr, ierr)
		return ierr
	}
	err := os.Remove(name)
	logFS("Remove", name, 0, -1, nil, err)
	return err
}

func OSMkdirAll(path string, perm os.FileMode) error {
	if _, ierr := consult("MkdirAll", path, 0); ierr != nil {
		logFS("MkdirAll", path, 0, -1, ierr, ierr)
		return ierr
	}
	err := os.MkdirAll(path, perm)
	logFS("MkdirAll", path, 0, -1, nil, err)
	return err
}

func OSMkdir(path string, perm os.FileMode) error {
	if _, ierr := consult("Mkdir", path, 0); ierr != nil {
		logFS("Mkdir", path, 0, -1, ierr, ierr)
		return ierr
	}
	err := os.Mkdir(path, perm)
	logFS("Mkdir", path, 0, -1, nil, err)
	return err
}

func OSChmod(name string, mode os.FileMode) error {
	if _, ierr := consult("Chmod", name, 0); ierr != nil {
		logFS("Chmod", name, 0, -1, ierr, ierr)
		return ierr
	}
	err := os.Chmod(name, mode)
	logFS("Chmod", name, 0, -1, nil, err)
	return err
}

func OSTruncate(name string, size int64) error {
	if _, ierr := consult("Truncate", name, 0); ierr != nil {
		logFS("Truncate", name, 0, -1, ierr, ierr)
		return ierr
	}
	err := os.Truncate(name, size)
	logFS("Truncate", name, 0, -1, nil, err)
	return err
}

// Methods on *os.File reached through a statically typed receiver.

func FileWrite(f *os.File, b []byte) (int, error) {
	name := ""
	if f != nil {
		name = f.Name()
	}
	partial, ierr := consult("File.Write", name, len(b))
	if ierr != nil {
		n := 0
		if partial > 0 {
			if partial > len(b) {
				partial = len(b)
			}
			n, _ = f.Write(b[:partial])
		}
		logFS("File.Write", name, len(b), partial, ierr, ierr)
		return n, ierr
	}
	n, err := f.Write(b)
	logFS("File.Write", name, len(b), -1, nil, err)
	return n, err
}

func FileWriteString(f *os.File, s string) (int, error) { return FileWrite(f, []byte(s)) }

func FileClose(f *os.File) error {
	name := ""
	if f != nil {
		name = f.Name()
	}
	if _, ierr := consult("File.Close", name, 0); ierr != nil {
		_ = f.Close()
		logFS("File.Close", name, 0, -1, ierr, ierr)
		return ierr
	}
	err := f.Close()
	logFS("File.Close", name, 0, -1, nil, err)
	return err
}

func FileSync(f *os.File) error {
	name := ""
	if f != nil {
		name = f.Name()
	}
	if _, ierr := consult("File.Sync", name, 0); ierr != nil {
		logFS("File.Sync", name, 0, -1, ierr, ierr)
		return ierr
	}
	err := f.Sync()
	logFS("File.Sync", name, 0, -1, nil, err)
	return err
}

// ---- package-level state ---------------------------------------------------

// Globals returns pointers to every package-level variable of package jen
// (generated by the rewriter).
var Globals func() map[string]interface{}

// ResetCounters clears per-run counters (not Hits, which accumulate per process).
func ResetRun() {
	FSLog = nil
	Uncontrolled = 0
}

// ResetProcessState forgets what simulated sync primitives hold (pool contents, Once
// states): together with the restored package variables this is the state of a fresh process.
func ResetProcessState() {
	resetSync()
	resetClock()
	Hot = 0
}

// ---- synchronisation primitives (seam S6) -------------------------------------
// A task parked on a real lock could never be released by a cooperative scheduler,
// so blocking operations of package sync are redirected here by the rewriter: they
// spin on the non-blocking variant and tell the scheduler to run someone else.

func MutexLock(m *sync.Mutex) {
	if Cur == nil {
		m.Lock()
		return
	}
	for !m.TryLock() {
		Cur.Blocked("sync.Mutex.Lock")
	}
	Hot = 2
}

func RWMutexLock(m *sync.RWMutex) {
	if Cur == nil {
		m.Lock()
		return
	}
	for !m.TryLock() {
		Cur.Blocked("sync.RWMutex.Lock")
	}
}

func RWMutexRLock(m *sync.RWMutex) {
	if Cur == nil {
		m.RLock()
		return
	}
	for !m.TryRLock() {
		Cur.Blocked("sync.RWMutex.RLock")
	}
}

var onceState = map[*sync.Once]int{} // 1 = running, 2 = done (simulation only)

func OnceDo(o *sync.Once, f func()) {
	if Cur == nil {
		o.Do(f)
		return
	}
	for {
		switch onceState[o] {
		case 2:
			return
		case 1:
			Cur.Blocked("sync.Once.Do")
			continue
		}
		done := false
		o.Do(func() { done = true }) // claims the real Once without running f under its lock
		if !done {
			onceState[o] = 2 // completed before the simulation started
			return
		}
		onceState[o] = 1
		defer func() { onceState[o] = 2 }()
		f()
		return
	}
}

var poolItems = map[*sync.Pool][]interface{}{}

// PoolGet / PoolPut give sync.Pool a behaviour the simulator decides: whether Get
// reuses a pooled object or calls New is a coin (sync.Pool may drop objects at any time).
func PoolGet(p *sync.Pool) interface{} {
	if Cur == nil {
		return p.Get()
	}
	Hot = 2
	reuse := Cur.Coin("pool-reuse") // always drawn, so a task's decision stream does not depend on what other tasks put in the pool
	if items := poolItems[p]; len(items) > 0 && reuse {
		x := items[len(items)-1]
		poolItems[p] = items[:len(items)-1]
		return x
	}
	if p.New != nil {
		return p.New()
	}
	return nil
}

func PoolPut(p *sync.Pool, x interface{}) {
	if Cur == nil {
		p.Put(x)
		return
	}
	Hot = 2
	if x != nil {
		poolItems[p] = append(poolItems[p], x)
	}
}

func resetSync() {
	onceState = map[*sync.Once]int{}
	poolItems = map[*sync.Pool][]interface{}{}
}

// ---- time (seam S7) -------------------------------------------------------------
// package jen's reads of the clock go to a simulated clock: one microsecond per
// statement executed, plus jumps the simulator injects (a cooperative fault point: with
// a coin a read finds the clock a minute later, which expires anything time-based).

var simEpoch = time.Date(2020, 1, 2, 3, 4, 5, 0, time.UTC)
var clockSkew time.Duration
var ClockReads, ClockJumps int

func Now() time.Time {
	if Cur == nil {
		return time.Now()
	}
	if Concurrent {
		big.Lock()
		defer big.Unlock()
	}
	ClockReads++
	if Cur.Coin("clock-jump") {
		clockSkew += time.Minute
		ClockJumps++
	}
	return simEpoch.Add(time.Duration(Steps)*time.Microsecond + clockSkew)
}

func Since(t time.Time) time.Duration { return Now().Sub(t) }
func Until(t time.Time) time.Duration { return t.Sub(Now()) }

// Sleep advances the simulated clock; nothing really sleeps.
func Sleep(d time.Duration) {
	if Cur == nil {
		time.Sleep(d)
		return
	}
	if Concurrent {
		big.Lock()
		defer big.Unlock()
	}
	if d > 0 {
		clockSkew += d
	}
}

func resetClock() { clockSkew = 0 }
