package main

import (
	"go/parser"
	"regexp"
	"go/scanner"
	"go/token"
	"strconv"
)

// symUse is one occurrence of a workload symbol S<p>_<n> in rendered text.
type symUse struct {
	Sym  string
	Qual string // qualifier written before it ("" = bare)
	Off  int
}

// scanSymUses tokenises rendered text (a file or a fragment, formatted or not) and
// returns every occurrence of a workload symbol with the qualifier in front of it.
func scanSymUses(src []byte) []symUse {
	fset := token.NewFileSet()
	f := fset.AddFile("out.go", -1, len(src))
	var s scanner.Scanner
	s.Init(f, src, func(token.Position, string) {}, 0)
	type tk struct {
		tok token.Token
		lit string
		off int
	}
	var prev, prev2 tk
	var out []symUse
	for {
		pos, tok, lit := s.Scan()
		if tok == token.EOF {
			break
		}
		if tok == token.SEMICOLON && lit == "\n" {
			prev2, prev = prev, tk{tok, lit, int(pos)}
			continue
		}
		if tok == token.IDENT && symRe.MatchString(lit) {
			u := symUse{Sym: lit, Off: f.Offset(pos)}
			if prev.tok == token.PERIOD && prev2.tok == token.IDENT {
				u.Qual = prev2.lit
			} else if prev.tok == token.PERIOD {
				u.Qual = "?" + prev2.lit // a dot with something other than an identifier before it
			}
			out = append(out, u)
		}
		prev2, prev = prev, tk{tok, lit, int(pos)}
	}
	return out
}

type importSpec struct {
	Name string // "" = no alias written
	Path string
}

var pkgClauseRe = regexp.MustCompile(`(?m)^package [^\n/]*`)

func parseImports(src []byte) ([]importSpec, error) {
	// the package clause is not the import block's business (a File may be named after a
	// keyword by its user): parse with a neutral one
	if loc := pkgClauseRe.FindIndex(src); loc != nil {
		src = append(append(append([]byte{}, src[:loc[0]]...), []byte("package p ")...), src[loc[1]:]...)
	}
	fset := token.NewFileSet()
	file, err := parser.ParseFile(fset, "out.go", src, parser.ImportsOnly)
	if err != nil {
		return nil, err
	}
	var out []importSpec
	for _, is := range file.Imports {
		p, _ := strconv.Unquote(is.Path.Value)
		sp := importSpec{Path: p}
		if is.Name != nil {
			sp.Name = is.Name.Name
		}
		out = append(out, sp)
	}
	return out, nil
}

// symPaths maps every workload symbol of the recipe to the import path it was built with.
func symPaths(r *Recipe) map[string]string {
	m := map[string]string{}
	if len(r.Paths) == 0 {
		return m
	}
	n := len(r.Paths)
	r.walk(func(nd *Node) {
		if nd.K == "qual" {
			m[nd.S] = r.Paths[((nd.I%n)+n)%n].Path
		}
	})
	return m
}

func declaredName(r *Recipe, path string) (string, bool) {
	if path == "C" {
		return "C", true // the cgo pseudo-package
	}
	for _, p := range r.Paths {
		if p.Path == path {
			return p.Name, true
		}
	}
	return "", false
}
