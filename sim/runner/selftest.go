package main

import (
	"bytes"
	"encoding/json"
	"fmt"
	"go/parser"
	"go/token"
	"os"
	"os/exec"
	"path/filepath"
	"runtime"
	"sort"
	"strconv"
	"strings"
)

// selftest gates the machinery itself (exit 2 on any failure, never a VIOLATION):
//  1. the std package names the generator uses as truth match $GOROOT/src;
//  2. the rewritten package (identity decisions) and the plain package agree on
//     order-independent recipes (faithfulness of the rewrite);
//  3. every engine gives identical event digests for the same seeds in separate
//     processes at GOMAXPROCS 1, 4 and 16.

func safeRecipe(seed uint64) *Case {
	c := propC07{}.Gen(seed, "quick")
	// force order-independent shapes: regenerate until neither known trigger is present
	for i := uint64(1); ; i++ {
		var cfg GenCfg
		json.Unmarshal(c.Cfg, &cfg)
		if cfg.KeyQualMode != 2 && cfg.EqualKeys == 0 {
			return c
		}
		c = propC07{}.Gen(Mix(seed, i), "quick")
	}
}

func identityDigests(from, to int) map[string]string {
	out := map[string]string{}
	for i := from; i < to; i++ {
		c := safeRecipe(RunSeed(7, "selftest", i))
		hist := Exec(c.Recipe, newEnv(newFileSim("identity", 0)))
		var parts []interface{}
		for _, o := range hist {
			if o.Render {
				parts = append(parts, o.class(), o.Out)
			}
		}
		out[strconv.Itoa(i)] = digest(parts...)
	}
	return out
}

func selftest() int {
	ok := true
	fail := func(format string, a ...interface{}) {
		ok = false
		fmt.Printf("selftest FAIL: "+format+"\n", a...)
	}
	// 1. std names
	goroot := runtime.GOROOT()
	if out, err := exec.Command("go", "env", "GOROOT").Output(); err == nil && strings.TrimSpace(string(out)) != "" {
		goroot = strings.TrimSpace(string(out))
	}
	checked := 0
	for _, sp := range stdPool {
		dir := filepath.Join(goroot, "src", sp.Path)
		ents, err := os.ReadDir(dir)
		if err != nil {
			fail("std path %q not in %s", sp.Path, goroot)
			continue
		}
		name := ""
		for _, e := range ents {
			if strings.HasSuffix(e.Name(), ".go") && !strings.HasSuffix(e.Name(), "_test.go") {
				f, err := parser.ParseFile(token.NewFileSet(), filepath.Join(dir, e.Name()), nil, parser.PackageClauseOnly)
				if err == nil && f.Name.Name != "main" && f.Name.Name != "documentation" {
					name = f.Name.Name
					break
				}
			}
		}
		if name != sp.Name {
			fail("std package %q is named %q in GOROOT, the generator assumes %q", sp.Path, name, sp.Name)
		}
		checked++
	}
	fmt.Printf("selftest: %d std package names match %s/src\n", checked, goroot)

	// 2. faithfulness of the rewrite
	if plain := os.Getenv("VERIF_SIMRUN_PLAIN"); plain != "" {
		const n = 400
		mine := identityDigests(0, n)
		out, err := exec.Command(plain, "identitydigests", "0", strconv.Itoa(n)).Output()
		if err != nil {
			fail("plain runner: %v", err)
		} else {
			var theirs map[string]string
			json.Unmarshal(out, &theirs)
			diff := 0
			for k, v := range mine {
				if theirs[k] != v {
					diff++
					if diff <= 3 {
						fail("recipe %s renders differently in the rewritten package (identity decisions) and the plain package", k)
					}
				}
			}
			fmt.Printf("selftest: rewritten (identity) vs plain package agree on %d/%d order-independent recipes\n", n-diff, n)
		}
	} else {
		fail("VERIF_SIMRUN_PLAIN not set")
	}

	// 3. determinism across processes and GOMAXPROCS
	var ids []string
	for id := range properties {
		ids = append(ids, id)
	}
	sort.Strings(ids)
	var only []string
	for i := 0; i < 30; i++ {
		only = append(only, strconv.Itoa(i*11+((i*7)%5)))
	}
	for _, id := range ids {
		var ref map[string]string
		for _, procs := range []int{1, 4, 16} {
			ws, err := spawnWorker(id, "quick", 12345, 0, 400, strings.Join(only, ","), procs)
			if err != nil {
				fail("%s: %v", id, err)
				break
			}
			if ref == nil {
				ref = ws.Det
				continue
			}
			for k, v := range ref {
				if ws.Det[k] != v {
					fail("%s run %s: event digest differs between processes (GOMAXPROCS %d)", id, k, procs)
				}
			}
		}
		fmt.Printf("selftest: %s: %d seeds x 3 processes (GOMAXPROCS 1/4/16) identical\n", id, len(ref))
	}
	if !ok {
		return 2
	}
	fmt.Println("selftest ok")
	return 0
}

func identityDigestsCmd(args []string) {
	from, _ := strconv.Atoi(args[0])
	to, _ := strconv.Atoi(args[1])
	var buf bytes.Buffer
	json.NewEncoder(&buf).Encode(identityDigests(from, to))
	os.Stdout.Write(buf.Bytes())
}
