package main

// Minimisation: shrink the recipe and the decision lists while the same rule of the
// same property keeps failing. Bounded by a budget of candidate executions.

// Shrinker lets a property add its own candidates (C09 schedules, C20 histories...).
type Shrinker interface {
	Shrink(c *Case, v *Violation) []*Case
}

// Validator lets a property reject candidates that leave its oracle's assumptions.
type Validator interface {
	Valid(c *Case) bool
}

type slot struct {
	get func() *Node
	set func(*Node)
}

func nodeSlots(r *Recipe) []slot {
	var out []slot
	var rec func(n *Node)
	rec = func(n *Node) {
		if n == nil {
			return
		}
		for i := range n.N {
			i := i
			out = append(out, slot{func() *Node { return n.N[i] }, func(x *Node) { n.N[i] = x }})
			rec(n.N[i])
		}
		for i := range n.B {
			i := i
			out = append(out, slot{func() *Node { return n.B[i] }, func(x *Node) { n.B[i] = x }})
			rec(n.B[i])
		}
		for i := range n.KV {
			i := i
			out = append(out, slot{func() *Node { return n.KV[i][0] }, func(x *Node) { n.KV[i][0] = x }})
			rec(n.KV[i][0])
			out = append(out, slot{func() *Node { return n.KV[i][1] }, func(x *Node) { n.KV[i][1] = x }})
			rec(n.KV[i][1])
		}
	}
	for i := range r.Ops {
		i := i
		if r.Ops[i].Node != nil {
			out = append(out, slot{func() *Node { return r.Ops[i].Node }, func(x *Node) { r.Ops[i].Node = x }})
			rec(r.Ops[i].Node)
		}
	}
	for i := range r.Frags {
		i := i
		out = append(out, slot{func() *Node { return r.Frags[i] }, func(x *Node) { r.Frags[i] = x }})
		rec(r.Frags[i])
	}
	return out
}

// allNodes lists every node of the recipe in a fixed order.
func allNodes(r *Recipe) []*Node {
	var out []*Node
	r.walk(func(n *Node) { out = append(out, n) })
	return out
}

func withRecipe(c *Case, r *Recipe) *Case {
	nc := *c
	nc.Recipe = r
	return &nc
}

func isLeaf(n *Node) bool { return n != nil && len(n.N) == 0 && len(n.B) == 0 && len(n.KV) == 0 }

// candidates yields simpler variants of c, most aggressive first.
func candidates(c *Case, v *Violation) []func() *Case {
	var out []func() *Case
	// keep only the reference execution and the failing one
	if len(c.Execs) > 2 && v.Exec > 0 && v.Exec < len(c.Execs) {
		out = append(out, func() *Case {
			nc := *c
			nc.Execs = []ExecSpec{c.Execs[0], c.Execs[v.Exec]}
			return &nc
		})
	}
	if len(c.Pollute) > 0 {
		out = append(out, func() *Case {
			nc := *c
			nc.Pollute = nil
			return &nc
		})
	}
	if c.Recipe != nil {
		r := c.Recipe
		// drop ops after the failing one
		if v.Op >= 0 && v.Op+1 < len(r.Ops) {
			out = append(out, func() *Case {
				nr := cloneRecipe(r)
				nr.Ops = nr.Ops[:v.Op+1]
				return withRecipe(c, nr)
			})
		}
		for i := len(r.Ops) - 1; i >= 0; i-- {
			i := i
			out = append(out, func() *Case {
				nr := cloneRecipe(r)
				nr.Ops = append(nr.Ops[:i], nr.Ops[i+1:]...)
				return withRecipe(c, nr)
			})
		}
		for i := len(r.Frags) - 1; i >= 0; i-- {
			i := i
			out = append(out, func() *Case {
				nr := cloneRecipe(r)
				nr.Frags = append(nr.Frags[:i], nr.Frags[i+1:]...)
				return withRecipe(c, nr)
			})
		}
		// writer / fs plans off
		for i := range r.Ops {
			i := i
			if r.Ops[i].W != nil && r.Ops[i].W.FailAt != 0 {
				out = append(out, func() *Case {
					nr := cloneRecipe(r)
					nr.Ops[i].W = nil
					return withRecipe(c, nr)
				})
			}
		}
		// list element removal, hoisting, leaf replacement
		nn := len(allNodes(r))
		for k := 0; k < nn; k++ {
			k := k
			n := allNodes(r)[k]
			for j := len(n.N) - 1; j >= 0; j-- {
				j := j
				out = append(out, func() *Case {
					nr := cloneRecipe(r)
					m := allNodes(nr)[k]
					m.N = append(m.N[:j], m.N[j+1:]...)
					return withRecipe(c, nr)
				})
			}
			for j := len(n.B) - 1; j >= 0; j-- {
				j := j
				out = append(out, func() *Case {
					nr := cloneRecipe(r)
					m := allNodes(nr)[k]
					m.B = append(m.B[:j], m.B[j+1:]...)
					return withRecipe(c, nr)
				})
			}
			for j := len(n.KV) - 1; j >= 0; j-- {
				j := j
				out = append(out, func() *Case {
					nr := cloneRecipe(r)
					m := allNodes(nr)[k]
					m.KV = append(m.KV[:j], m.KV[j+1:]...)
					return withRecipe(c, nr)
				})
			}
			if n.T != nil && len(n.T) > 0 {
				out = append(out, func() *Case {
					nr := cloneRecipe(r)
					allNodes(nr)[k].T = nil
					return withRecipe(c, nr)
				})
			}
		}
		ns := len(nodeSlots(r))
		for k := 0; k < ns; k++ {
			k := k
			cur := nodeSlots(r)[k].get()
			if cur == nil {
				continue
			}
			if !isLeaf(cur) {
				out = append(out, func() *Case {
					nr := cloneRecipe(r)
					nodeSlots(nr)[k].set(&Node{K: "id", S: "V_0"})
					return withRecipe(c, nr)
				})
				nch := len(cur.N) + len(cur.B)
				for j := 0; j < nch; j++ {
					j := j
					out = append(out, func() *Case {
						nr := cloneRecipe(r)
						s := nodeSlots(nr)[k]
						m := s.get()
						var ch *Node
						if j < len(m.N) {
							ch = m.N[j]
						} else {
							ch = m.B[j-len(m.N)]
						}
						s.set(ch)
						return withRecipe(c, nr)
					})
				}
			} else if cur.K == "qual" || cur.K == "str" || cur.K == "int" {
				out = append(out, func() *Case {
					nr := cloneRecipe(r)
					nodeSlots(nr)[k].set(&Node{K: "id", S: "V_0"})
					return withRecipe(c, nr)
				})
			}
		}
		// unreferenced paths
		out = append(out, func() *Case { return withRecipe(c, dropUnusedPaths(r)) })
	}
	// decisions: one permutation at a time back to identity
	for e := range c.Execs {
		for p := len(c.Execs[e].Perms) - 1; p >= 0; p-- {
			e, p := e, p
			out = append(out, func() *Case {
				nc := *c
				nc.Execs = append([]ExecSpec(nil), c.Execs...)
				ps := append([]PermRec(nil), c.Execs[e].Perms...)
				nc.Execs[e].Perms = append(ps[:p], ps[p+1:]...)
				return &nc
			})
		}
	}
	return out
}

func dropUnusedPaths(r *Recipe) *Recipe {
	nr := cloneRecipe(r)
	used := make([]bool, len(nr.Paths))
	mark := func(i int) {
		if len(nr.Paths) > 0 {
			used[((i%len(nr.Paths))+len(nr.Paths))%len(nr.Paths)] = true
		}
	}
	nr.walk(func(n *Node) {
		if n.K == "qual" {
			mark(n.I)
		}
	})
	for _, op := range nr.Ops {
		for _, p := range op.P {
			mark(p)
		}
	}
	for i, p := range nr.Paths {
		if nr.File.Path == p.Path {
			used[i] = true
		}
	}
	remap := make([]int, len(nr.Paths))
	var kept []PathSpec
	for i, u := range used {
		if u {
			remap[i] = len(kept)
			kept = append(kept, nr.Paths[i])
		}
	}
	if len(kept) == len(nr.Paths) || len(kept) == 0 {
		return nr
	}
	n0 := len(nr.Paths)
	fix := func(i int) int { return remap[((i%n0)+n0)%n0] }
	nr.walk(func(n *Node) {
		if n.K == "qual" {
			n.I = fix(n.I)
		}
	})
	for i := range nr.Ops {
		for j := range nr.Ops[i].P {
			nr.Ops[i].P[j] = fix(nr.Ops[i].P[j])
		}
	}
	nr.Paths = kept
	return nr
}

func caseSize(c *Case) int {
	n := 0
	if c.Recipe != nil {
		n += len(allNodes(c.Recipe))*4 + len(c.Recipe.Ops)*8 + len(c.Recipe.Frags)*8 + len(c.Recipe.Paths)
	}
	for _, e := range c.Execs {
		n += 2 + len(e.Perms)
	}
	for _, p := range c.Pollute {
		n += 20 + len(allNodes(p))
	}
	if c.Conc != nil {
		n += c.Conc.size()
	}
	if c.Clone != nil {
		n += c.Clone.size()
	}
	if c.Dict != nil {
		n += c.Dict.size()
	}
	return n
}

// minimise returns the smallest case found on which the same rule still fails.
func minimise(prop Property, c *Case, v *Violation, budget int) (*Case, *Violation, int) {
	cur, curV := c, v
	steps := 0
	spent := 0
	for progress := true; progress && spent < budget; {
		progress = false
		cands := candidates(cur, curV)
		if sh, ok := prop.(Shrinker); ok {
			for _, sc := range sh.Shrink(cur, curV) {
				sc := sc
				cands = append(cands, func() *Case { return sc })
			}
		}
		for _, mk := range cands {
			if spent >= budget {
				break
			}
			var cand *Case
			func() {
				defer func() {
					if recover() != nil {
						cand = nil
					}
				}()
				cand = mk()
			}()
			if cand == nil || caseSize(cand) >= caseSize(cur) {
				continue
			}
			if val, ok := prop.(Validator); ok && !val.Valid(cand) {
				continue
			}
			spent++
			var nv *Violation
			var ri *RunInfo
			func() {
				defer func() {
					if recover() != nil {
						nv = nil // a candidate the check cannot even execute is not a smaller failing case
					}
				}()
				nv, ri = runCheck(prop, cand)
			}()
			if nv != nil && nv.Rule == curV.Rule {
				cur, curV = freezeKeep(cand, ri), nv
				steps++
				progress = true
				break
			}
		}
	}
	return cur, curV, steps
}

// freezeKeep keeps explicit decisions explicit (a candidate is already frozen; its
// Check re-records the decisions taken, which may have shrunk with the recipe).
func freezeKeep(c *Case, ri *RunInfo) *Case {
	return freeze(c, ri)
}
