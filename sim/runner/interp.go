package main

import (
	"bytes"
	"crypto/sha256"
	"encoding/hex"
	"errors"
	"fmt"
	"io"
	"math"
	"os"
	"path/filepath"
	"reflect"
	"regexp"
	"sort"
	"strings"
	"syscall"
	"time"

	"github.com/dave/jennifer/jen"
	"github.com/dave/jennifer/simhook"
)

// ---- building DSL trees ----------------------------------------------------

// floatLits: literal values whose rendering has corner cases (signed zeros, float32, complex)
var floatLits = []interface{}{0.0, math.Copysign(0, -1), 1.5, float32(0), float32(math.Copysign(0, -1)), float32(2.5), complex(0, 0), complex(math.Copysign(0, -1), 0), 1e21, -3.0}

type bctx struct {
	calls  int // how often a LitFunc callback of this build has been invoked
	paths  []PathSpec
	groups []*jen.Group
	keyIdx int
	// frags: the recipe's fragments (private, or shared between Files in C09's share mode);
	// a node of kind "shared" places fragment I itself (the same Code value) inside a tree
	frags []*jen.Statement
	// slots: statements built empty (node kind "placeholder") that a later "fill" op appends to
	slots map[int]*jen.Statement
	// fileFunc[i]: group i is the body of a function declaration added directly to the
	// File (so whatever is added to it later must show up in the File's next render)
	fileFunc map[int]bool
}

func (c *bctx) path(i int) string {
	if len(c.paths) == 0 {
		return "missing.example/p"
	}
	return c.paths[((i%len(c.paths))+len(c.paths))%len(c.paths)].Path
}

func (c *bctx) arg(n *Node, i int) jen.Code {
	if i < len(n.N) {
		return c.build(n.N[i])
	}
	return jen.Null()
}

func (c *bctx) rest(n *Node, i int) []jen.Code {
	if i >= len(n.N) {
		return nil
	}
	return c.list(n.N[i:])
}

func (c *bctx) list(ns []*Node) []jen.Code {
	out := make([]jen.Code, 0, len(ns))
	for _, n := range ns {
		out = append(out, c.build(n))
	}
	return out
}

// build interprets one node. It always returns a fresh *jen.Statement (or nil for kind "nil").
func (c *bctx) build(n *Node) jen.Code {
	if n == nil {
		return jen.Null()
	}
	switch n.K {
	case "nil":
		return nil
	case "shared":
		if len(c.frags) == 0 {
			return jen.Null()
		}
		return c.frags[n.I%len(c.frags)]
	case "id":
		return jen.Id(n.S)
	case "int":
		return jen.Lit(n.I)
	case "str":
		return jen.Lit(n.S)
	case "unsupported":
		return jen.Lit(struct{ X int }{n.I}) // documented: Lit of any other type panics when rendered
	case "flt":
		return jen.Lit(floatLits[((n.I%len(floatLits))+len(floatLits))%len(floatLits)])
	case "litfunc":
		// a callback with state: the library documents that it is executed when the literal is built
		calls := 0 // per callback: the value says how often THIS callback has run
		return jen.LitFunc(func() interface{} { calls++; c.calls++; return n.I*1000 + calls })
	case "bigstr":
		return jen.Lit(strings.Repeat("x", n.I))
	case "qual":
		return jen.Qual(c.path(n.I), n.S)
	case "call":
		return jen.Add(c.arg(n, 0)).Call(c.rest(n, 1)...)
	case "sel":
		return jen.Add(c.arg(n, 0)).Dot(n.S)
	case "idx":
		return jen.Add(c.arg(n, 0)).Index(c.arg(n, 1))
	case "bin":
		return jen.Add(c.arg(n, 0)).Op(n.S).Add(c.arg(n, 1))
	case "paren":
		return jen.Parens(c.arg(n, 0))
	case "slice":
		return jen.Index().Add(c.arg(n, 0)).Values(c.rest(n, 1)...)
	case "values":
		return jen.Add(c.arg(n, 0)).Values(c.rest(n, 1)...)
	case "dict":
		d := jen.Dict{}
		for pi, kv := range n.KV {
			k := c.build(kv[0])
			// canonical rank of a key = (Dict id, pair position): the same in every build of the recipe
			simhook.RegisterKey(k, n.ID*4096+pi)
			d[k] = c.build(kv[1])
		}
		return jen.Add(c.arg(n, 0)).Values(d)
	case "dictfunc":
		df := jen.DictFunc(func(d jen.Dict) {
			for pi, kv := range n.KV {
				k := c.build(kv[0])
				simhook.RegisterKey(k, n.ID*4096+pi)
				d[k] = c.build(kv[1])
			}
		})
		return jen.Add(c.arg(n, 0)).Values(df)
	case "maptype":
		return jen.Map(c.arg(n, 0)).Add(c.arg(n, 1))
	case "slicetype":
		return jen.Index().Add(c.arg(n, 0))
	case "ptrtype":
		return jen.Op("*").Add(c.arg(n, 0))
	case "t_int":
		return jen.Int()
	case "t_string":
		return jen.String()
	case "t_any":
		return jen.Interface()
	case "funclit":
		return jen.Func().Params().Block(c.list(n.B)...)
	case "null":
		return jen.Null()
	case "emptystmt":
		return jen.Add()
	case "placeholder":
		st := jen.Add()
		if c.slots == nil {
			c.slots = map[int]*jen.Statement{}
		}
		c.slots[n.I] = st
		return st
	case "emptytag":
		return jen.Tag(map[string]string{})
	case "empty":
		return jen.Empty()
	case "ctorchain":
		// tokens chained onto what a package-level constructor of an "invisible" item hands out
		// (Empty() in front of slice bounds or for clauses is the documented use): every call
		// must hand out a statement of its own
		var s *jen.Statement
		switch ((n.I % 4) + 4) % 4 {
		case 0:
			s = jen.Empty()
		case 1:
			s = jen.Null()
		case 2:
			s = jen.Add()
		default:
			s = jen.Op("")
		}
		return s.Add(c.arg(n, 0)).Op("+").Add(c.arg(n, 1))
	case "line":
		return jen.Line()
	case "define":
		return jen.Id(n.S).Op(":=").Add(c.arg(n, 0))
	case "assign":
		return jen.Id(n.S).Op("=").Add(c.arg(n, 0))
	case "expr":
		return jen.Add(c.arg(n, 0))
	case "ret":
		return jen.Return(c.list(n.N)...)
	case "if":
		return jen.If(c.arg(n, 0)).Block(c.list(n.B)...)
	case "for":
		return jen.For().Block(c.list(n.B)...)
	case "switch":
		if n.I == 1 {
			return jen.Switch(c.arg(n, 0)).BlockFunc(func(g *jen.Group) {
				for _, b := range n.B {
					g.Add(c.build(b))
				}
				c.groups = append(c.groups, g)
			})
		}
		return jen.Switch(c.arg(n, 0)).Block(c.list(n.B)...)
	case "case", "default":
		var s *jen.Statement
		if n.K == "case" {
			s = jen.Case(c.list(n.N)...)
		} else {
			s = jen.Default()
		}
		switch n.I {
		case 1:
			return s.Block()
		case 2:
			return s.Block(nil)
		case 3:
			return s.Block(jen.Null())
		case 4:
			return s.BlockFunc(func(g *jen.Group) {
				for _, b := range n.B {
					g.Add(c.build(b))
				}
				c.groups = append(c.groups, g)
			})
		case 5:
			return s // no block at all
		}
		return s.Block(c.list(n.B)...)
	case "comment":
		return jen.Comment(n.S)
	case "bad":
		return jen.Op(")(")
	case "block":
		return jen.Block(c.list(n.B)...)
	case "var":
		return jen.Var().Id(n.S).Op("=").Add(c.arg(n, 0))
	case "vartyped":
		return jen.Var().Id(n.S).Add(c.arg(n, 0))
	case "func":
		var params []jen.Code
		for i, p := range n.N {
			params = append(params, jen.Id(fmt.Sprintf("a%d", i)).Add(c.build(p)))
		}
		if n.I == 1 {
			return jen.Func().Id(n.S).Params(params...).BlockFunc(func(g *jen.Group) {
				for _, b := range n.B {
					g.Add(c.build(b))
				}
				c.groups = append(c.groups, g)
			})
		}
		return jen.Func().Id(n.S).Params(params...).Block(c.list(n.B)...)
	case "struct":
		return jen.Type().Id(n.S).Struct(c.list(n.N)...)
	case "field":
		s := jen.Id(n.S).Add(c.arg(n, 0))
		if n.T != nil {
			m := map[string]string{}
			for _, kv := range n.T {
				m[kv[0]] = kv[1]
			}
			s.Tag(m)
		}
		return s
	case "list":
		return jen.List(c.list(n.N)...)
	case "custom":
		return jen.Custom(jen.Options{Open: "(", Close: ")", Separator: ",", Multi: n.I == 1}, c.list(n.N)...)
	}
	panic("recipe: unknown node kind " + n.K)
}

// ---- the caller's writer (seam S2) -----------------------------------------

var errInjectedWrite = errors.New("sim: injected writer error")

type simWriter struct {
	plan  *WriterPlan
	calls int
	sizes []int
	buf   bytes.Buffer
	fired bool
}

func (w *simWriter) Write(p []byte) (int, error) {
	w.calls++
	w.sizes = append(w.sizes, len(p))
	if w.plan != nil && w.plan.Reenter && w.calls == 1 {
		// a writer that, before consuming p, causes an unrelated File to be rendered by the
		// same goroutine (a logging or progress hook): p must still be this call's output
		other := jen.NewFile("reentered")
		other.NoFormat = true
		other.Var().Id("reentered").Op("=").Lit(strings.Repeat("R", 64+len(p)))
		other.Render(io.Discard)
		otherF := jen.NewFile("reentered2")
		otherF.Var().Id("again").Op("=").Lit(len(p))
		otherF.Render(io.Discard)
	}
	if w.plan != nil && w.plan.FailAt == w.calls {
		w.fired = true
		if w.plan.Kind == "short" {
			n := len(p) / 2
			w.buf.Write(p[:n])
			return n, io.ErrShortWrite
		}
		if w.plan.Kind == "errfull" {
			// the bytes were taken, then a later stage (flush, sync) failed: (len(p), err) is a legal result
			w.buf.Write(p)
			return len(p), errInjectedWrite
		}
		return 0, errInjectedWrite
	}
	w.buf.Write(p)
	return len(p), nil
}

// ---- executing a history ---------------------------------------------------

// Outcome is what one op of a history produced.
type Outcome struct {
	Op       int      `json:"op"`
	Kind     string   `json:"kind"`
	Obj      string   `json:"obj,omitempty"` // which object was rendered: "file", "frag:1", "group:0", "body"
	Render   bool     `json:"render,omitempty"`
	OK       bool     `json:"ok"`
	Err      string   `json:"err,omitempty"`
	Panic    string   `json:"panic,omitempty"`
	Out      []byte   `json:"-"`
	OutStr   string   `json:"out,omitempty"` // filled only when serialised for a replay file
	Calls    []int    `json:"calls,omitempty"`
	Fired    bool     `json:"fired,omitempty"`    // an injected writer/fs fault actually fired
	FSFault  bool     `json:"fs_fault,omitempty"` // a structural fs fault is expected to fire
	FSBefore []string `json:"fs_before,omitempty"`
	FSAfter  []string `json:"fs_after,omitempty"`
	FSLog    []string `json:"fs_log,omitempty"`
	Saved    []byte   `json:"-"`
	SavedOK  bool     `json:"saved_ok,omitempty"` // target is a regular file after the op
	Target   string   `json:"target,omitempty"`   // Save target, relative to the op's sandbox directory
	State    string   `json:"state,omitempty"`    // digest of the File's import table after the op
	NoFormat bool     `json:"noformat,omitempty"`
}

func (o *Outcome) class() string {
	switch {
	case o.Panic != "":
		return "panic"
	case !o.OK:
		return "error"
	}
	return "ok"
}

// Env controls one execution of a recipe.
type Env struct {
	Sim       *fileSim
	Sandbox   string // directory for Save targets ("" = Save ops are skipped)
	NoFaults  bool   // ignore every writer / fs plan
	NoFaultOp int    // ignore the plan of this op only (-1 = none); ops after it are not executed
	UpTo      int    // execute ops [0..UpTo] (-1 = all)
	// SharedNames, if set, is the one names table (a Go map owned by the caller) that
	// "hint_names_shared" ops of every job pass to ImportNames (C09).
	SharedNames map[string]string
	// Prefill[i]: bytes the harness knows op i (a Save) will produce; used to set up a target
	// that differs from them only in line endings ("existing-crlf")
	Prefill map[int][]byte
	// FlatSaveDir/SaveTag: Save ops write <FlatSaveDir>/<SaveTag>-op<i>.go, so that several
	// jobs save side by side into one directory (C09); no fault plans apply.
	FlatSaveDir string
	SaveTag     string
	// RenderHook, if set, is told when a render call starts and ends (C09 probe).
	RenderHook func(in bool)
}

func newEnv(sim *fileSim) *Env { return &Env{Sim: sim, NoFaultOp: -1, UpTo: -1} }

type built struct {
	file   *jen.File
	frags  []*jen.Statement
	ctx    *bctx
}

func newFile(spec FileSpec) *jen.File {
	switch spec.Ctor {
	case "path":
		return jen.NewFilePath(spec.Path)
	case "pathname":
		return jen.NewFilePathName(spec.Path, spec.Name)
	}
	return jen.NewFile(spec.Name)
}

// importState digests the File's private import table (for evidence: distinct states).
func importState(f *jen.File) (string, int) {
	defer func() { recover() }()
	v := reflect.ValueOf(f).Elem().FieldByName("imports")
	if !v.IsValid() || v.Kind() != reflect.Map {
		return "n/a", 0
	}
	var rows []string
	it := v.MapRange()
	for it.Next() {
		val := it.Value()
		row := it.Key().String()
		if val.Kind() == reflect.Struct {
			for i := 0; i < val.NumField(); i++ {
				row += fmt.Sprintf("|%v", val.Field(i))
			}
		}
		rows = append(rows, row)
	}
	sort.Strings(rows)
	return digest(rows), len(rows)
}

var digitsRe = regexp.MustCompile(`[0-9]+`)

// stableName keeps event logs free of process-specific names: anything that is not part
// of the set-up (temp files a Save implementation creates: pids, counters, random suffixes)
// has its digit runs masked.
func stableName(rel string) string {
	base := filepath.Base(rel)
	switch base {
	case "out.go", "keep.txt", "afile", "missing", "elsewhere.go":
		return rel
	}
	return filepath.Join(filepath.Dir(rel), digitsRe.ReplaceAllString(base, "N"))
}

func snapshotDir(dir string) []string {
	var rows []string
	filepath.Walk(dir, func(p string, info os.FileInfo, err error) error {
		if err != nil || p == dir {
			return nil
		}
		rel, _ := filepath.Rel(dir, p)
		rel = stableName(rel)
		if info.IsDir() {
			rows = append(rows, rel+" dir")
			return nil
		}
		if info.Mode()&os.ModeSymlink != 0 {
			dest, _ := os.Readlink(p)
			if r2, err := filepath.Rel(dir, dest); err == nil {
				dest = r2
			}
			rows = append(rows, rel+" symlink -> "+dest)
			return nil
		}
		b, _ := os.ReadFile(p)
		h := sha256.Sum256(b)
		age := "written-during-run"
		if info.ModTime().Equal(oldTime) {
			age = "as-set-up"
		}
		rows = append(rows, fmt.Sprintf("%s file size=%d sha=%s mtime=%s mode=%o", rel, len(b), hex.EncodeToString(h[:6]), age, info.Mode().Perm()))
		return nil
	})
	sort.Strings(rows)
	return rows
}

var oldTime = time.Date(2001, 2, 3, 4, 5, 6, 0, time.UTC)

// setupTarget creates the filesystem situation of a Save op and returns the target path.
func setupTarget(sub string, plan *FSPlan, op int, prevTarget string, prefill []byte) (target string, structural bool) {
	os.MkdirAll(sub, 0755)
	target = filepath.Join(sub, "out.go")
	switch plan.Target {
	case "existing":
		// longer than most outputs, so that a Save that does not truncate shows
		os.WriteFile(target, []byte(fmt.Sprintf("// KEEP %d\npackage keep\n", op)+strings.Repeat("// old line of a previous, longer version\n", 1+plan.Part*40)), 0644)
		os.Chtimes(target, oldTime, oldTime)
		if plan.RO {
			os.Chmod(target, 0444) // read-only for everybody but root (the sandbox runs as root)
		}
	case "isdir":
		os.MkdirAll(target, 0755)
		os.WriteFile(filepath.Join(target, "keep.txt"), []byte("KEEP"), 0644)
		os.Chtimes(filepath.Join(target, "keep.txt"), oldTime, oldTime)
	case "isdir-empty":
		// an empty directory in the target's place: the one kind of directory a clean-up
		// with os.Remove can take away
		os.MkdirAll(target, 0755)
	case "noparent":
		target = filepath.Join(sub, "missing", "out.go")
	case "parentfile":
		os.WriteFile(filepath.Join(sub, "afile"), []byte("KEEP"), 0644)
		os.Chtimes(filepath.Join(sub, "afile"), oldTime, oldTime)
		target = filepath.Join(sub, "afile", "out.go")
	case "existing-crlf":
		// an older copy of the same file that went through a tool with other line endings
		content := []byte(strings.ReplaceAll(string(prefill), "\n", "\r\n"))
		if len(prefill) == 0 {
			content = []byte("package keep\r\n")
		}
		os.WriteFile(target, content, 0644)
		os.Chtimes(target, oldTime, oldTime)
	case "symlink-dangling":
		os.Symlink(filepath.Join(sub, "elsewhere.go"), target) // the destination does not exist
	case "symlink-file":
		os.WriteFile(filepath.Join(sub, "elsewhere.go"), []byte("package keep // behind a symlink\n"), 0644)
		os.Chtimes(filepath.Join(sub, "elsewhere.go"), oldTime, oldTime)
		os.Symlink(filepath.Join(sub, "elsewhere.go"), target)
	case "again", "again-mkparent", "again-deleted", "again-scribbled":
		// the same path as the previous Save of this history, after the world moved on
		if prevTarget != "" {
			target = prevTarget
			switch plan.Target {
			case "again-mkparent":
				os.MkdirAll(filepath.Dir(target), 0755)
			case "again-deleted":
				os.Remove(target)
			case "again-scribbled":
				if st, err := os.Lstat(target); err == nil && st.Mode().IsRegular() {
					os.WriteFile(target, []byte("package keep // edited by hand\n"), 0644)
					os.Chtimes(target, oldTime, oldTime)
				}
			}
		}
	}
	// a Save can only succeed if the parent is a directory and the target is not one
	if st, err := os.Stat(filepath.Dir(target)); err != nil || !st.IsDir() {
		structural = true
	}
	if st, err := os.Lstat(target); err == nil && st.IsDir() {
		structural = true
	}
	return
}

func fsErr(kind, name string) error {
	switch kind {
	case "eacces":
		return &os.PathError{Op: "open", Path: name, Err: syscall.EACCES}
	case "enospc":
		return &os.PathError{Op: "write", Path: name, Err: syscall.ENOSPC}
	case "eio":
		return &os.PathError{Op: "write", Path: name, Err: syscall.EIO}
	}
	return nil
}

// Exec builds the recipe's objects from scratch and runs its history under env.Sim.
func Exec(r *Recipe, env *Env) (hist []Outcome) {
	simhook.ResetKeys()
	simhook.ResetRun()
	prev := simhook.Cur
	if env.Sim != nil {
		simhook.Cur = env.Sim
	} else {
		simhook.Cur = nil
	}
	defer func() { simhook.Cur = prev }()
	return execBody(r, env, nil)
}

// execBody runs the history without touching the installed simulation (used directly
// by concurrent tasks). shared, if non-nil, supplies pre-built fragments (Code values
// shared between Files).
func execBody(r *Recipe, env *Env, shared []*jen.Statement) (hist []Outcome) {
	ctx := &bctx{paths: r.Paths}
	b := &built{ctx: ctx}
	b.file = newFile(r.File)
	if shared != nil {
		b.frags = shared
	}
	for _, fr := range r.Frags {
		if shared != nil {
			break
		}
		code := ctx.build(fr)
		st, ok := code.(*jen.Statement)
		if !ok {
			st = jen.Null()
		}
		b.frags = append(b.frags, st)
	}
	ctx.frags = b.frags
	f := b.file
	lastSaveSub, lastSaveTarget := "", ""
	for i, op := range r.Ops {
		if env.UpTo >= 0 && i > env.UpTo {
			break
		}
		o := Outcome{Op: i, Kind: op.K, OK: true}
		faults := !env.NoFaults && env.NoFaultOp != i
		func() {
			defer func() {
				if p := recover(); p != nil {
					o.OK = false
					o.Panic = fmt.Sprint(p)
				}
			}()
			switch op.K {
			case "hint_name":
				p := r.Paths[op.P[0]%len(r.Paths)]
				f.ImportName(p.Path, p.Name)
			case "hint_names":
				m := map[string]string{}
				for _, pi := range op.P {
					p := r.Paths[pi%len(r.Paths)]
					m[p.Path] = p.Name
				}
				f.ImportNames(m)
			case "hint_names_shared":
				if env.SharedNames != nil {
					f.ImportNames(env.SharedNames)
				}
			case "hint_names_alt":
				m := map[string]string{}
				for _, pi := range op.P {
					p := r.Paths[pi%len(r.Paths)]
					m[p.Path] = fmt.Sprintf("alt%d", pi%len(r.Paths))
				}
				f.ImportNames(m)
			case "hint_alias":
				f.ImportAlias(r.Paths[op.P[0]%len(r.Paths)].Path, op.S)
			case "anon":
				var ps []string
				for _, pi := range op.P {
					ps = append(ps, r.Paths[pi%len(r.Paths)].Path)
				}
				f.Anon(ps...)
			case "prefix":
				f.PackagePrefix = op.S
			case "noformat":
				f.NoFormat = op.I != 0
			case "pkgcomment":
				f.PackageComment(op.S)
			case "header":
				f.HeaderComment(op.S)
			case "cgo":
				f.CgoPreamble(op.S)
			case "canonical":
				f.CanonicalPath = op.S
			case "add":
				f.Add(ctx.build(op.Node))
				if op.Node != nil && op.Node.K == "func" && op.Node.I == 1 && len(ctx.groups) > 0 {
					if ctx.fileFunc == nil {
						ctx.fileFunc = map[int]bool{}
					}
					ctx.fileFunc[len(ctx.groups)-1] = true // a func's own body group is captured last
				}
			case "fill":
				if st := ctx.slots[op.I]; st != nil {
					st.Add(ctx.build(op.Node))
				} else {
					o.Kind = "fill_skipped" // the placeholder is not part of this build (minimised away)
				}
			case "add_to_group":
				if len(ctx.groups) > 0 {
					gi := op.I % len(ctx.groups)
					if ctx.fileFunc[gi] {
						o.Obj = "filegroup"
					}
					ctx.groups[gi].Add(ctx.build(op.Node))
				}
			case "addfrag":
				if len(b.frags) > 0 {
					f.Add(b.frags[op.I%len(b.frags)])
				}
			case "line":
				f.Line()
			case "line_comment":
				// chained onto what f.Line() returns: belongs to this blank line of this File only
				f.Line().Comment(op.S)
			case "addfrag_chain":
				// f.Add(x) returns a statement of the File's own: what is chained onto it belongs to this File only
				if len(b.frags) > 0 {
					f.Add(b.frags[op.I%len(b.frags)]).Line().Comment(op.S)
				}
			case "gostring":
				// fmt's %#v on a File: GoString renders the File and panics on error
				o.Render = true
				o.Obj = "file"
				o.NoFormat = f.NoFormat
				if env.RenderHook != nil {
					env.RenderHook(true)
					defer env.RenderHook(false)
				}
				func() {
					// GoString panics where Render returns an error (documented): same outcome class
					defer func() {
						if p := recover(); p != nil {
							o.OK = false
							o.Err = fmt.Sprint(p)
						}
					}()
					o.Out = []byte(f.GoString())
				}()
			case "render", "render_frag", "render_frag_nofile", "render_group", "render_group_nofile", "render_body":
				o.Render = true
				o.NoFormat = f.NoFormat
				w := &simWriter{}
				if faults {
					w.plan = op.W
				}
				var bb *bytes.Buffer
				const bbPrefix = "earlier output\n"
				if faults && op.W != nil && op.W.Kind == "bytesbuffer" {
					// the caller's writer is a plain *bytes.Buffer that already holds something
					bb = bytes.NewBufferString(bbPrefix)
				}
				if env.RenderHook != nil {
					env.RenderHook(true)
					defer env.RenderHook(false)
				}
				var err error
				var dst io.Writer = w
				if bb != nil {
					dst = bb
				}
				switch op.K {
				case "render":
					o.Obj = "file"
					err = f.Render(dst)
				case "render_frag", "render_frag_nofile":
					if len(b.frags) == 0 {
						o.Render = false
						return
					}
					i := op.I % len(b.frags)
					o.Obj = fmt.Sprintf("frag:%d", i)
					if op.K == "render_frag" {
						err = b.frags[i].RenderWithFile(dst, f)
					} else {
						o.Obj += ":nofile"
						err = b.frags[i].Render(dst)
					}
				case "render_group", "render_group_nofile":
					if len(ctx.groups) == 0 {
						o.Render = false
						return
					}
					i := op.I % len(ctx.groups)
					o.Obj = fmt.Sprintf("group:%d", i)
					if op.K == "render_group" {
						err = ctx.groups[i].RenderWithFile(dst, f)
					} else {
						o.Obj += ":nofile"
						err = ctx.groups[i].Render(dst)
					}
				case "render_body":
					o.Obj = "body"
					err = f.Group.RenderWithFile(dst, f)
				}
				o.Out = append([]byte(nil), w.buf.Bytes()...)
				if bb != nil {
					// what the call added to the caller's buffer (its earlier content must still lead)
					if strings.HasPrefix(bb.String(), bbPrefix) {
						o.Out = []byte(bb.String()[len(bbPrefix):])
					} else {
						o.Out = append([]byte("<<caller's earlier content damaged>>"), bb.Bytes()...)
					}
				}
				o.Calls = w.sizes
				o.Fired = w.fired
				if err != nil {
					o.OK = false
					o.Err = err.Error()
				}
			case "save":
				if env.FlatSaveDir != "" {
					o.Render = true
					o.Obj = "file"
					o.NoFormat = f.NoFormat
					if env.RenderHook != nil {
						env.RenderHook(true)
						defer env.RenderHook(false)
					}
					target := filepath.Join(env.FlatSaveDir, fmt.Sprintf("%s-op%d.go", env.SaveTag, i))
					err := f.Save(target)
					if b, e := os.ReadFile(target); e == nil {
						o.Out = b // compared like rendered bytes
					}
					if err != nil {
						o.OK = false
						o.Err = strings.ReplaceAll(err.Error(), env.FlatSaveDir, "$DIR")
					}
					return
				}
				if env.Sandbox == "" {
					o.Kind = "save_skipped"
					return
				}
				o.Render = true
				o.Obj = "file"
				o.NoFormat = f.NoFormat
				sub := filepath.Join(env.Sandbox, fmt.Sprintf("op%d", i))
				if strings.HasPrefix(op.F.Target, "again") && lastSaveSub != "" {
					sub = lastSaveSub
				} else {
					os.RemoveAll(sub)
				}
				target, structural := setupTarget(sub, op.F, i, lastSaveTarget, env.Prefill[i])
				lastSaveSub, lastSaveTarget = sub, target
				o.FSFault = structural
				o.Target, _ = filepath.Rel(sub, target)
				o.FSBefore = snapshotDir(sub)
				if env.Sim != nil {
					env.Sim.armFS(op.F, faults)
				}
				simhook.FSLog = nil
				// whatever Save does (return, panic), the world afterwards is recorded
				defer func() {
					if env.Sim != nil {
						o.Fired = env.Sim.fsFired
						env.Sim.armFS(nil, false)
					}
					for _, c := range simhook.FSLog {
						rel, _ := filepath.Rel(sub, c.Name)
						rel = stableName(rel)
						o.FSLog = append(o.FSLog, fmt.Sprintf("%s %s size=%d partial=%d injected=%q err=%v", c.Op, rel, c.Size, c.Partial, digitsRe.ReplaceAllString(strings.ReplaceAll(c.Injected, env.Sandbox, "$SANDBOX"), "N"), c.Err != ""))
					}
					o.FSAfter = snapshotDir(sub)
					if st, e := os.Stat(target); e == nil && st.Mode().IsRegular() {
						o.SavedOK = true
						o.Saved, _ = os.ReadFile(target)
					}
				}()
				err := f.Save(target)
				if err != nil {
					o.OK = false
					o.Err = err.Error()
				}
			default:
				panic("recipe: unknown op " + op.K)
			}
		}()
		o.State, _ = importState(f)
		if env.Sandbox != "" {
			// keep event logs free of process-specific paths
			o.Err = strings.ReplaceAll(o.Err, env.Sandbox, "$SANDBOX")
			if o.Kind == "save" {
				o.Err = digitsRe.ReplaceAllString(o.Err, "N")
			}
			o.Panic = strings.ReplaceAll(o.Panic, env.Sandbox, "$SANDBOX")
		}
		if len(o.Err) > 400 {
			o.Err = o.Err[:400] + "…"
		}
		hist = append(hist, o)
	}
	return hist
}

func errClass(o *Outcome) string {
	if o.Panic != "" {
		return "panic"
	}
	if o.OK {
		return "ok"
	}
	switch {
	case strings.Contains(o.Err, "while formatting source"):
		return "format-error"
	case strings.Contains(o.Err, "injected"):
		return "injected"
	}
	return "error"
}
