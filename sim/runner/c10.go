package main

import (
	"bytes"
	"encoding/json"
	"fmt"
	"strings"
)

// C10 — failure atomicity and error propagation for Render and Save.
// Fault plans (writer error / short write at the k-th Write; ENOENT, EISDIR,
// ENOTDIR on a real sandbox; injected EACCES / ENOSPC / EIO at the os boundary)
// x entry points x valid and invalid trees. The reference for every op is an
// independent rebuild of the same history with that op fault-free.

type propC10 struct{}

func init() { register(propC10{}) }

func (propC10) ID() string    { return "C10" }
func (propC10) Level() string { return "fault_enumeration" }
func (propC10) Rule() string {
	return "run indices below the grid size enumerate, exhaustively, 5 fixed trees (3 valid, 2 invalid) x {6 writer entry points x {no fault, error at Write 1/2, short write at Write 1/2, re-entrant writer}, Save x 8 target situations (fresh, existing short/long, existing with CRLF line endings, directory, missing parent, parent is a file, dangling symlink, symlink to a file) x {none, EACCES, ENOSPC with 0/50/100% landed, EIO}}; the remaining indices sample trees, histories (1..3 faulted ops) and plans by seed, under seeded map order; distinct = distinct (entry point, tree validity, fault kind, fired?, outcome class); non-trivial = a fault fired or the tree was invalid"
}
func (propC10) Runs(tier string) int {
	if tier == "thorough" {
		return 1500000
	}
	return 30000
}

var c10EntryPoints = []string{"render", "render_frag", "render_frag_nofile", "render_group", "render_group_nofile", "render_body"}
var c10WriterPlans = []*WriterPlan{nil, {FailAt: 1, Kind: "err"}, {FailAt: 2, Kind: "err"}, {FailAt: 1, Kind: "short"}, {FailAt: 2, Kind: "short"}, {FailAt: 1, Kind: "errfull"}, {Reenter: true}, {Kind: "bytesbuffer"}}
var c10Targets = []string{"fresh", "existing", "existing-crlf", "isdir", "isdir-empty", "noparent", "parentfile", "symlink-dangling", "symlink-file"}
var c10Injects = []FSPlan{{}, {Part: 25}, {Inject: "eacces", At: 1}, {Inject: "enospc", At: 1, Part: 0}, {Inject: "enospc", At: 1, Part: 50}, {Inject: "enospc", At: 1, Part: 100}, {Inject: "eio", At: 1, Part: 30}}

func c10Trees() []*Recipe {
	paths := []PathSpec{{Path: "a.example/d", Name: "d"}, {Path: "b.example/d", Name: "d"}, {Path: "fmt", Name: "fmt", Std: true}}
	q := func(p int, s string) *Node { return &Node{K: "qual", I: p, S: s} }
	fn := func(body ...*Node) *Node { return &Node{K: "func", S: "V_1", I: 1, B: body} }
	call := &Node{K: "expr", N: []*Node{{K: "call", N: []*Node{q(2, "S2_1"), {K: "str", S: "x"}}}}}
	sw := &Node{K: "switch", N: []*Node{{K: "id", S: "V_0"}}, B: []*Node{{K: "case", N: []*Node{q(0, "S0_2")}, B: []*Node{call}}, {K: "default", I: 1}}}
	dict := &Node{K: "var", S: "V_2", N: []*Node{{K: "dict", ID: 1, N: []*Node{{K: "maptype", N: []*Node{{K: "t_any"}, {K: "t_any"}}}},
		KV: [][2]*Node{{q(0, "S0_3"), {K: "int", I: 1}}, {{K: "str", S: "k"}, q(1, "S1_4")}}}}}
	bad := &Node{K: "bad"}
	mk := func(frag *Node, decls ...*Node) *Recipe {
		r := &Recipe{File: FileSpec{Ctor: "name", Name: "main"}, Paths: paths, Frags: []*Node{frag}}
		for _, d := range decls {
			r.Ops = append(r.Ops, Op{K: "add", Node: d})
		}
		return r
	}
	return []*Recipe{
		mk(call, fn(call)),
		mk(sw, fn(sw, call), dict),
		mk(&Node{K: "call", N: []*Node{q(1, "S1_9"), {K: "int", I: 1}}}, dict, fn(&Node{K: "ret", N: []*Node{q(0, "S0_8")}})),
		mk(bad, fn(call, bad)),                       // invalid: formatter rejects file, fragment, group and body
		mk(&Node{K: "case", I: 5, N: []*Node{bad}}, fn(sw), &Node{K: "var", S: "V_3", N: []*Node{bad}}), // invalid at top level only: the captured group stays valid
	}
}

func c10GridSize() int {
	return len(c10Trees()) * (len(c10EntryPoints)*len(c10WriterPlans) + len(c10Targets)*len(c10Injects))
}

func c10GridCase(index int) *Case {
	trees := c10Trees()
	per := len(c10EntryPoints)*len(c10WriterPlans) + len(c10Targets)*len(c10Injects)
	t, cell := index/per, index%per
	rec := cloneRecipe(trees[t])
	if t%2 == 1 {
		rec.Ops = append([]Op{{K: "noformat", I: 0}}, rec.Ops...)
	}
	if cell < len(c10EntryPoints)*len(c10WriterPlans) {
		ep, wp := cell/len(c10WriterPlans), cell%len(c10WriterPlans)
		op := Op{K: c10EntryPoints[ep]}
		if c10WriterPlans[wp] != nil {
			w := *c10WriterPlans[wp]
			op.W = &w
		}
		rec.Ops = append(rec.Ops, op)
	} else {
		cell -= len(c10EntryPoints) * len(c10WriterPlans)
		tg, inj := cell/len(c10Injects), cell%len(c10Injects)
		f := c10Injects[inj]
		f.Target = c10Targets[tg]
		rec.Ops = append(rec.Ops, Op{K: "save", F: &f})
	}
	c := &Case{Property: "C10", Tier: "grid", Recipe: rec, Execs: []ExecSpec{{Mode: "identity"}}}
	c.Cfg, _ = json.Marshal(map[string]int{"grid_cell": index})
	return c
}

func (p propC10) Gen(seed uint64, tier string) *Case { return p.GenAt(1<<30, seed, tier) }

func (propC10) GenAt(index int, seed uint64, tier string) *Case {
	if index < c10GridSize() {
		c := c10GridCase(index)
		c.Seed = seed
		return c
	}
	r := NewRNG(seed)
	cfg := baseCfg(r)
	cfg.NPaths = r.Range(1, 5)
	cfg.NStd = r.Intn(2)
	cfg.Bad = []float64{0, 0, 0, 0.1, 0.4}[r.Intn(5)]
	if r.Chance(0.2) {
		cfg.KeyQualMode = 2
	}
	g := &Gen{r: r, cfg: cfg, lits: true}
	g.universe()
	rec := &Recipe{Paths: g.paths}
	rec.File = genFileSpec(g, r, true)
	if r.Chance(0.04) {
		rec.File = FileSpec{Ctor: "name", Name: r.Pick([]string{"my-pkg", "2fa", "pkg name", ""})} // not an identifier
	}
	rec.Ops = append(rec.Ops, genConfigOps(g, r, true)...)
	for i := r.Range(1, 3); i > 0; i-- {
		rec.Ops = append(rec.Ops, Op{K: "add", Node: g.decl()})
	}
	if r.Chance(0.2) {
		rec.Ops = append(rec.Ops, Op{K: "add", Node: &Node{K: "var", S: g.newID(), N: []*Node{{K: "bad"}}}})
	}
	if r.Chance(0.05) {
		// a tree that cannot be rendered at all: Lit of an unsupported type panics by contract
		rec.Ops = append(rec.Ops, Op{K: "add", Node: &Node{K: "var", S: g.newID(), N: []*Node{{K: "unsupported", I: 1}}}})
	}
	for i := r.Range(1, 3); i > 0; i-- {
		rec.Frags = append(rec.Frags, g.fragment())
	}
	if r.Chance(0.15) {
		rec.Frags = append(rec.Frags, &Node{K: "bad"})
	}
	big := r.Chance(0.06)
	if big {
		// outputs far beyond any internal chunk size
		n := r.Pick2(33000, 40000, 70000, 140000)
		rec.Ops = append(rec.Ops, Op{K: "add", Node: &Node{K: "var", S: g.newID(), N: []*Node{{K: "bigstr", I: n}}}})
		rec.Frags = append([]*Node{{K: "define", S: g.newID(), N: []*Node{{K: "bigstr", I: n}}}}, rec.Frags...)
	}
	wplan := func() *WriterPlan {
		if r.Chance(0.45) {
			return nil
		}
		if r.Chance(0.12) {
			return &WriterPlan{Reenter: true}
		}
		if r.Chance(0.12) {
			return &WriterPlan{Kind: "bytesbuffer"}
		}
		k := r.Range(1, 3)
		if big {
			k = r.Range(1, 5)
		}
		return &WriterPlan{FailAt: k, Kind: r.Pick([]string{"err", "short", "errfull"})}
	}
	for i := r.Range(1, 4); i > 0; i-- {
		switch x := r.Intn(10); {
		case x < 3:
			rec.Ops = append(rec.Ops, Op{K: "render", W: wplan()})
		case x < 6:
			f := &FSPlan{Target: r.Pick(c10Targets), Part: r.Pick2(0, 0, 3, 10, 50)}
			if r.Chance(0.3) {
				f.Target = r.Pick([]string{"again", "again-mkparent", "again-deleted", "again-scribbled"})
			}
			if f.Target == "existing" && r.Chance(0.3) {
				f.RO = true
			}
			if r.Chance(0.45) {
				f.Inject = r.Pick([]string{"eacces", "enospc", "eio"})
				f.At = r.Range(1, 2)
				f.Part = r.Pick2(0, 1, 50, 99, 100)
			}
			rec.Ops = append(rec.Ops, Op{K: "save", F: f})
		case x < 7:
			fi := r.Intn(8)
			if big && r.Chance(0.7) {
				fi = 0
			}
			rec.Ops = append(rec.Ops, Op{K: "render_frag", I: fi, W: wplan()})
		case x < 8:
			rec.Ops = append(rec.Ops, Op{K: r.Pick([]string{"render_frag_nofile", "render_group_nofile"}), I: r.Intn(8), W: wplan()})
		case x < 9:
			rec.Ops = append(rec.Ops, Op{K: "render_group", I: r.Intn(8), W: wplan()})
		default:
			rec.Ops = append(rec.Ops, Op{K: "render_body", W: wplan()})
		}
		if r.Chance(0.15) {
			rec.Ops = append(rec.Ops, Op{K: "add", Node: g.decl()})
		}
	}
	if r.Chance(0.03) {
		// failure burst: many failing calls in a row, then calls that must still work
		rec.Frags = append(rec.Frags, &Node{K: "bad"})
		bad := len(rec.Frags) - 1
		for i := r.Range(9, 20); i > 0; i-- {
			switch r.Intn(3) {
			case 0:
				rec.Ops = append(rec.Ops, Op{K: "render_frag", I: bad})
			case 1:
				rec.Ops = append(rec.Ops, Op{K: "render_frag_nofile", I: bad})
			default:
				rec.Ops = append(rec.Ops, Op{K: "render", W: &WriterPlan{FailAt: 1, Kind: "err"}})
			}
		}
		rec.Ops = append(rec.Ops, Op{K: "render"}, Op{K: "render_frag", I: 0})
	}
	if r.Chance(0.08) {
		// rendered (maybe successfully), then made invalid, then the failing call retried: what
		// an earlier call left behind (a memoised output, a recorded checksum) must not turn
		// the retry into a success nor reach the target
		first := Op{K: "render"}
		if r.Chance(0.3) {
			first = Op{K: "save", F: &FSPlan{Target: "fresh"}}
		}
		rec.Ops = append(rec.Ops, first,
			Op{K: "add", Node: &Node{K: "var", S: g.newID(), N: []*Node{{K: "bad"}}}})
		for i := r.Range(2, 3); i > 0; i-- {
			switch r.Intn(4) {
			case 0:
				rec.Ops = append(rec.Ops, Op{K: "save", F: &FSPlan{Target: r.Pick([]string{"again", "existing", "fresh"})}})
			case 1:
				rec.Ops = append(rec.Ops, Op{K: "render_body"})
			default:
				rec.Ops = append(rec.Ops, Op{K: "render"})
			}
		}
	}
	c := &Case{Property: "C10", Seed: seed, Tier: tier, Recipe: rec}
	c.Cfg, _ = json.Marshal(cfg)
	c.Execs = []ExecSpec{{Mode: "shuffle", Seed: Mix(seed, 5)}}
	return c
}

func (r *RNG) Pick2(vals ...int) int { return vals[r.Intn(len(vals))] }

func targetRows(rows []string, target string) []string {
	var out []string
	for _, row := range rows {
		name := row[:strings.Index(row, " ")]
		if name == target || strings.HasPrefix(name, target+"/") || strings.HasPrefix(target, name+"/") {
			out = append(out, row)
		}
	}
	return out
}

// otherRows: snapshot rows that do not belong to the target (nor lie on the way to it, nor
// are the destination of the symlink scenarios).
func otherRows(rows []string, target string) []string {
	mine := map[string]bool{}
	for _, r := range targetRows(rows, target) {
		mine[r] = true
	}
	var out []string
	for _, r := range rows {
		if !mine[r] && !strings.HasPrefix(r, "elsewhere.go ") {
			out = append(out, r)
		}
	}
	return out
}

func faultKind(op *Op, o *Outcome) string {
	switch {
	case op.W != nil && op.W.Reenter:
		return "writer-reenters"
	case op.W != nil && op.W.Kind == "bytesbuffer":
		return "writer-is-bytes.Buffer"
	case op.W != nil && op.W.FailAt > 0:
		return fmt.Sprintf("writer-%s@%d", op.W.Kind, op.W.FailAt)
	case op.F != nil && op.F.Inject != "":
		return "fs-" + op.F.Inject + "+" + op.F.Target
	case op.F != nil:
		return "fs-" + op.F.Target
	}
	return "none"
}

func (propC10) Check(c *Case) (*Violation, *RunInfo) {
	ri := &RunInfo{}
	sandbox := sandboxDir()
	defer cleanSandbox(sandbox)
	// targets that must look like an older copy of what is about to be saved need to know it
	prefill := map[int][]byte{}
	for i, op := range c.Recipe.Ops {
		if op.K == "save" && op.F != nil && op.F.Target == "existing-crlf" {
			pr := cloneRecipe(c.Recipe)
			pr.Ops[i] = Op{K: "render"}
			restoreGlobals()
			envP := newEnv(c.Execs[0].sim())
			envP.Sandbox = sandbox + "/p"
			envP.NoFaults, envP.UpTo = true, i
			if h := Exec(pr, envP); len(h) > i && h[i].OK {
				prefill[i] = h[i].Out
			}
		}
	}
	restoreGlobals()
	simA := c.Execs[0].sim()
	envA := newEnv(simA)
	envA.Prefill = prefill
	envA.Sandbox = sandbox + "/a"
	hist := Exec(c.Recipe, envA)
	ri.Steps = simA.Steps
	ri.Frozen = []ExecSpec{frozenSpec(simA)}
	var viol *Violation
	var keys []string
	for i := range hist {
		a := &hist[i]
		if !a.Render {
			continue
		}
		op := &c.Recipe.Ops[i]
		// reference: the same history rebuilt, op i fault-free and rendered into a plain buffer
		refRec := c.Recipe
		if op.K == "save" {
			refRec = cloneRecipe(c.Recipe)
			refRec.Ops[i] = Op{K: "render"}
		}
		restoreGlobals() // every world starts as a fresh process would
		envR := newEnv(c.Execs[0].sim())
		envR.Sandbox = sandbox + "/r"
		envR.NoFaultOp, envR.UpTo = i, i
		rh := Exec(refRec, envR)
		ref := &rh[i]
		// second reference: the same history in a world where no fault ever fired. On code
		// that keeps the property the two agree; if they differ, an earlier failed call has
		// changed what this call delivers, so "exactly the rendered output" no longer holds.
		restoreGlobals()
		envC := newEnv(c.Execs[0].sim())
		envC.Sandbox = sandbox + "/c"
		envC.NoFaults, envC.UpTo = true, i
		cleanRec := refRec
		if op.K == "save" {
			cleanRec = refRec
		}
		ch := Exec(cleanRec, envC)
		clean := &ch[i]
		if viol == nil && ref.Panic == "" && clean.Panic == "" && (ref.class() != clean.class() || (ref.OK && !bytes.Equal(ref.Out, clean.Out))) {
			viol = &Violation{Rule: "C10-A3-output-tainted-by-earlier-failure", Op: i,
				Detail:   fmt.Sprintf("op %d (%s %s): rendered without any fault at this call, the output differs depending on whether EARLIER calls of the history met their faults: after the failed calls it is not the rendered output (%s)", i, a.Kind, a.Obj, firstDiff(clean.Out, ref.Out)),
				Expected: clean.class() + " " + trunc(string(clean.Out), 600), Observed: ref.class() + " " + trunc(string(ref.Out), 600)}
		}
		fk := faultKind(op, a)
		valid := "valid"
		if !ref.OK {
			valid = "invalid"
		}
		fired := a.Fired || a.FSFault
		if a.Fired {
			ri.count("fault_fired_"+strings.SplitN(fk, "+", 2)[0], 1)
		}
		if a.FSFault {
			ri.count("fault_fired_structural_"+op.F.Target, 1)
		}
		keys = append(keys, fmt.Sprintf("%s|%s|%s|fired=%v|%s", a.Kind, valid, fk, fired, a.class()))
		if fired || !ref.OK {
			ri.Nontrivial = true
		}
		if viol != nil {
			continue
		}
		fail := func(rule, format string, args ...interface{}) {
			viol = &Violation{Rule: rule, Op: i, Detail: fmt.Sprintf("op %d (%s %s, fault plan %s): ", i, a.Kind, a.Obj, fk) + fmt.Sprintf(format, args...),
				Expected: ref.class() + " " + trunc(string(ref.Out), 600), Observed: a.class() + " err=" + trunc(a.Err+a.Panic, 300) + " out=" + trunc(string(a.Out), 600)}
		}
		if fileUnrenderable(c.Recipe, i) && (a.Obj == "file" || a.Obj == "body") {
			// the File contains a literal of an unsupported type: rendering cannot succeed (it
			// panics by contract); whatever the call does instead, it must not report success
			// nor write anything
			ri.count("unrenderable_trees", 1)
			if a.OK {
				fail("C10-failure-reported-as-success", "the File contains Lit(<struct>), which cannot be rendered, yet the call returned nil (writer got %d bytes)", len(a.Out))
			} else if op.K == "save" {
				before, after := targetRows(a.FSBefore, a.Target), targetRows(a.FSAfter, a.Target)
				if strings.Join(before, "\n") != strings.Join(after, "\n") {
					fail("C10-A1-target-touched", "rendering cannot succeed but the target changed: before %v, after %v", before, after)
				}
			} else if len(a.Out) > 0 {
				fail("C10-A1-partial-write", "rendering cannot succeed yet the writer received %d bytes", len(a.Out))
			}
			continue
		}
		if fileUnformattable(c.Recipe, i) && a.Obj == "file" && (op.K == "render" || op.K == "save") {
			// ground truth from the recipe, not from a rebuild by the code under test: the File
			// holds the declaration `var X = )(`, which is not Go, and formatting is on - the call
			// cannot succeed whatever earlier calls of the history did (a reference run of the same
			// history would share a memoised output or a recorded checksum with the run it judges)
			ri.count("unformattable_files", 1)
			if a.OK && a.Panic == "" {
				fail("C10-failure-reported-as-success", "the File contains `var X = )(` and is formatted, so rendering cannot succeed, yet the call returned nil (writer got %d bytes)", len(a.Out))
				continue
			}
		}
		if ref.Panic != "" {
			ri.count("reference_panics", 1)
			continue // a panicking tree is C02's business
		}
		if a.Panic != "" {
			fail("C10-panic-under-fault", "the call panicked (%s) although the same call without the fault does not", a.Panic)
			continue
		}
		if op.K == "save" {
			before, after := targetRows(a.FSBefore, a.Target), targetRows(a.FSAfter, a.Target)
			switch {
			case !ref.OK:
				ri.count("A1_save_on_invalid_tree", 1)
				if a.OK {
					fail("C10-A4-error-swallowed", "rendering this File fails (%s) but Save reported success", trunc(ref.Err, 120))
				} else if strings.Join(before, "\n") != strings.Join(after, "\n") {
					fail("C10-A1-target-touched", "rendering failed but the target changed: before %v, after %v (fs calls: %v)", before, after, a.FSLog)
				} else if strings.Join(a.FSBefore, "\n") != strings.Join(a.FSAfter, "\n") {
					fail("C10-A1-something-written", "rendering failed, so nothing may be written, but the directory changed: before %v, after %v (fs calls: %v)", a.FSBefore, a.FSAfter, a.FSLog)
				}
			case fired:
				ri.count("A2_save_under_fs_fault", 1)
				// a structural fault (the target is a directory, its parent is missing or is a
				// file) means the target could not even be opened: a Save that reports failure
				// there has had nothing to write, so whatever was in the directory, the
				// directory standing in the target's place included, must still be there
				if a.FSFault && !a.OK && strings.Join(a.FSBefore, "\n") != strings.Join(a.FSAfter, "\n") {
					fail("C10-A1-failed-save-destroyed-entries", "Save failed because the target cannot be opened (%s), yet the directory changed: before %v, after %v (fs calls: %v)", op.F.Target, a.FSBefore, a.FSAfter, a.FSLog)
				}
				// a nil return under a fault is only acceptable if the save genuinely succeeded
				// (an implementation may recover through a fallback); judged by the content below
			default:
				ri.count("A3_save_success", 1)
				if !a.OK {
					fail("C10-A4-spurious-error", "no fault fired and rendering succeeds, but Save failed: %s", trunc(a.Err, 200))
				}
			}
			if viol == nil && ref.OK {
				// whatever the outcome, Save's business is the target: other entries of the directory
				// (temporary files of an implementation that writes and renames) must not stay behind
				if o1, o2 := otherRows(a.FSBefore, a.Target), otherRows(a.FSAfter, a.Target); strings.Join(o1, "\n") != strings.Join(o2, "\n") {
					fail("C10-leftover-files", "after Save (returned error: %v) the directory holds entries besides the target that were not there before: before %v, after %v", !a.OK, o1, o2)
				}
			}
			if viol == nil && a.OK {
				if !a.SavedOK || !bytes.Equal(a.Saved, ref.Out) {
					rule, lead := "C10-A3-saved-content", "Save returned nil"
					if fired {
						rule, lead = "C10-A2-error-swallowed", fmt.Sprintf("a filesystem fault fired (%v) and Save returned nil", a.FSLog)
					}
					fail(rule, "%s but the target does not contain exactly the rendered output (regular file=%v, %d bytes vs %d expected; %s)", lead, a.SavedOK, len(a.Saved), len(ref.Out), firstDiff(ref.Out, a.Saved))
				}
			}
			continue
		}
		switch {
		case !ref.OK:
			ri.count("A1_render_on_invalid_tree", 1)
			if a.OK {
				fail("C10-A4-error-swallowed", "rendering fails without any fault (%s) but this call reported success", trunc(ref.Err, 120))
			} else if len(a.Out) > 0 {
				fail("C10-A1-partial-write", "rendering failed (%s) yet the writer received %d bytes in %d Write calls", trunc(a.Err, 120), len(a.Out), len(a.Calls))
			}
		case a.Fired:
			ri.count("A2_render_under_writer_fault", 1)
			// an io.Writer's error cannot be recovered from elsewhere: it must come back, even
			// when the writer took all the bytes before failing
			if a.OK {
				fail("C10-A2-error-swallowed", "the writer returned an error at Write call %d (kind %s) but the call returned nil", op.W.FailAt, op.W.Kind)
			}
		default:
			ri.count("A3_render_success", 1)
			if !a.OK {
				fail("C10-A4-spurious-error", "no fault fired and rendering succeeds, but the call failed: %s", trunc(a.Err, 200))
			} else if !bytes.Equal(a.Out, ref.Out) {
				fail("C10-A3-writer-content", "the call succeeded but the writer did not receive exactly the rendered output; %s", firstDiff(ref.Out, a.Out))
			}
			if len(a.Calls) > 1 {
				ri.count("renders_delivered_in_several_writes", 1)
			}
		}
	}
	ri.Key = digest(keys)
	ri.Inter = digest(ri.Frozen, keys)
	ri.States = keys
	return viol, ri
}

// fileUnformattable reports whether, at op i, the File holds a declaration that is not Go
// (`var X = )(`, added as such by the generator) while formatting is on.
func fileUnformattable(rec *Recipe, i int) bool {
	bad, noformat := false, false
	for j := 0; j <= i && j < len(rec.Ops); j++ {
		op := rec.Ops[j]
		switch op.K {
		case "noformat":
			noformat = op.I != 0
		case "add":
			if n := op.Node; n != nil && n.K == "var" && len(n.N) == 1 && n.N[0] != nil && n.N[0].K == "bad" {
				bad = true
			}
		}
	}
	return bad && !noformat
}

// fileUnrenderable reports whether, at op i, the File's own tree contains a node that
// cannot be rendered by contract (ground truth from the recipe, not from the code under test).
func fileUnrenderable(rec *Recipe, i int) bool {
	has := func(n *Node) bool {
		found := false
		n.walk(func(x *Node) {
			if x.K == "unsupported" {
				found = true
			}
		})
		return found
	}
	for j := 0; j <= i && j < len(rec.Ops); j++ {
		op := rec.Ops[j]
		switch op.K {
		case "add":
			if has(op.Node) {
				return true
			}
		case "addfrag", "addfrag_chain":
			if len(rec.Frags) > 0 && has(rec.Frags[op.I%len(rec.Frags)]) {
				return true
			}
		}
	}
	return false
}
