package main

import (
	"bytes"
	"context"
	"encoding/json"
	"fmt"
	"os"
	"os/exec"
	"reflect"
	"runtime"
	"sort"
	"strings"
	"sync"
	"sync/atomic"
	"time"

	"github.com/dave/jennifer/jen"
	"github.com/dave/jennifer/simhook"
)

// C09 — Files do not interfere. Independent build+render jobs run as tasks under a
// seeded cooperative scheduler: exactly one task holds the baton, and a yield point
// before every statement of package jen asks the scheduler whether to hand it on, so
// any two statements of different jobs can be ordered either way, replayably.

type ConcJob struct {
	Recipe *Recipe  `json:"recipe"`
	Exec   ExecSpec `json:"exec"` // the job's own map-order decisions (identical in its solo reference run)
}

type SwitchRec struct {
	At uint64 `json:"at"` // global step (yield passage) at which the baton moved
	To int    `json:"to"`
}

type SchedSpec struct {
	Kind     string      `json:"kind"`          // "walk" | "pct" | "hot" | "replay"
	K        int         `json:"k,omitempty"`   // walk: switch probability 1/2^k per step
	D        int         `json:"d,omitempty"`   // pct: number of priority change points
	Seed     uint64      `json:"seed,omitempty"`
	Switches []SwitchRec `json:"switches,omitempty"`
}

type ConcCase struct {
	Mode   string    `json:"mode"` // "interleave" | "share" | "race"
	Jobs   []ConcJob `json:"jobs"`
	Sched  SchedSpec `json:"sched"`
	Order  []int     `json:"order,omitempty"`  // order of the sequential leg / of the sharing Files
	Repeat int       `json:"repeat,omitempty"` // race leg: how often the batch is run
}

func (c *ConcCase) size() int {
	n := len(c.Sched.Switches) + 4*len(c.Jobs)
	for _, j := range c.Jobs {
		n += len(allNodes(j.Recipe))*4 + len(j.Recipe.Ops)*8 + len(j.Exec.Perms)
	}
	return n
}

// ---- scheduler -------------------------------------------------------------

type concTask struct {
	id       int
	wake     chan struct{}
	done     bool
	started  bool
	hist     []Outcome
	panicMsg string
	sim      *fileSim
	inRender bool
}

type concSim struct {
	tasks    []*concTask
	cur      int
	step     uint64
	rng      *RNG
	spec     SchedSpec
	replay   map[uint64]int
	log      []SwitchRec
	prio     []int
	lowPrio  int
	changeAt map[uint64]bool
	mainWake chan struct{}

	globals0      string
	globalsViol   string
	checkEvery    uint64
	switchesInRnd int
	runaway       bool
	spins           int
	hotYields       int
	blockedSwitches int
	deadlock        string
}

const maxConcSteps = 4_000_000

func (s *concSim) runnable(exclude int) []int {
	var out []int
	for _, t := range s.tasks {
		if !t.done && t.id != exclude {
			out = append(out, t.id)
		}
	}
	return out
}

func (s *concSim) top(exclude int) int {
	best := -1
	for _, id := range s.runnable(exclude) {
		if best < 0 || s.prio[id] > s.prio[best] {
			best = id
		}
	}
	return best
}

// pick decides who runs after this step (may be the current task).
func (s *concSim) pick() int {
	switch s.spec.Kind {
	case "replay":
		if to, ok := s.replay[s.step]; ok && to >= 0 && to < len(s.tasks) && !s.tasks[to].done {
			return to
		}
		return s.cur
	case "pct":
		if s.changeAt[s.step] {
			s.lowPrio--
			s.prio[s.cur] = s.lowPrio
		}
		if t := s.top(-1); t >= 0 {
			return t
		}
		return s.cur
	case "hot":
		// preempt where state is in flight: right after a filesystem call, a lock or a pool
		// operation the baton moves with probability 1/2, elsewhere rarely
		mask := uint64(1<<9) - 1
		if simhook.Hot > 0 {
			simhook.Hot--
			mask = 1
			s.hotYields++
		}
		if s.rng.U64()&mask == 0 {
			if r := s.runnable(s.cur); len(r) > 0 {
				return r[s.rng.Intn(len(r))]
			}
		}
		return s.cur
	default: // walk
		if s.rng.U64()&((1<<uint(s.spec.K))-1) == 0 {
			if r := s.runnable(s.cur); len(r) > 0 {
				return r[s.rng.Intn(len(r))]
			}
		}
		return s.cur
	}
}

func (s *concSim) Yield(site int) {
	s.step++
	if s.step > maxConcSteps {
		s.runaway = true
		panic("sim: step budget exceeded")
	}
	s.spins = 0
	if s.checkEvery > 0 && s.step%s.checkEvery == 0 {
		s.checkGlobals(fmt.Sprintf("at step %d (task %d running)", s.step, s.cur))
	}
	next := s.pick()
	if next != s.cur {
		me := s.tasks[s.cur]
		if me.inRender {
			s.switchesInRnd++
		}
		s.log = append(s.log, SwitchRec{At: s.step, To: next})
		s.cur = next
		s.tasks[next].wake <- struct{}{}
		<-me.wake
	}
}

func (s *concSim) Perm(site, n int, h uint64) []int { return s.tasks[s.cur].sim.Perm(site, n, h) }

func (s *concSim) FS(op, name string, size int) (int, error) { return -1, nil }

func (s *concSim) Coin(kind string) bool { return s.tasks[s.cur].sim.Coin(kind) }

// Blocked: the running task could not take a lock; someone else must run.
func (s *concSim) Blocked(what string) {
	s.step++
	s.spins++
	others := s.runnable(s.cur)
	if len(others) == 0 || s.spins > 200000 {
		s.deadlock = fmt.Sprintf("task %d blocks in %s and no other task can make progress", s.cur, what)
		panic("sim: deadlock: " + s.deadlock)
	}
	next := others[0]
	switch s.spec.Kind {
	case "replay":
		if to, ok := s.replay[s.step]; ok && to >= 0 && to < len(s.tasks) && !s.tasks[to].done && to != s.cur {
			next = to
		}
	case "pct":
		s.lowPrio--
		s.prio[s.cur] = s.lowPrio
		next = s.top(s.cur)
	default:
		next = others[s.rng.Intn(len(others))]
	}
	me := s.tasks[s.cur]
	s.blockedSwitches++
	s.log = append(s.log, SwitchRec{At: s.step, To: next})
	s.cur = next
	s.tasks[next].wake <- struct{}{}
	<-me.wake
}

// finish is called by a task that has run to completion; it passes the baton on.
func (s *concSim) finish(t *concTask) {
	t.done = true
	s.checkGlobals(fmt.Sprintf("after job %d finished", t.id))
	r := s.runnable(-1)
	if len(r) == 0 {
		s.mainWake <- struct{}{}
		return
	}
	next := r[0]
	switch s.spec.Kind {
	case "replay":
		if to, ok := s.replay[s.step]; ok && to >= 0 && to < len(s.tasks) && !s.tasks[to].done {
			next = to
		}
	case "pct":
		next = s.top(-1)
	default:
		next = r[s.rng.Intn(len(r))]
	}
	s.log = append(s.log, SwitchRec{At: s.step, To: next})
	s.cur = next
	s.tasks[next].wake <- struct{}{}
}

func (s *concSim) checkGlobals(when string) {
	if s.globals0 == "" || s.globalsViol != "" {
		return
	}
	if d := globalsDigest(); d != s.globals0 {
		s.globalsViol = when
	}
}

var _ simhook.Sim = (*concSim)(nil)

// globalsDigest is a deep digest of everything reachable from package jen's
// package-level variables (accessor generated by the rewriter).
func globalsDigest() string {
	if simhook.Globals == nil {
		return ""
	}
	g := simhook.Globals()
	var names []string
	for n := range g {
		names = append(names, n)
	}
	sort.Strings(names)
	var sb strings.Builder
	for _, n := range names {
		sb.WriteString(n + "=")
		deepWrite(&sb, reflect.ValueOf(g[n]), map[uintptr]bool{}, 0)
		sb.WriteString(";")
	}
	return digest(sb.String())
}

func deepWrite(sb *strings.Builder, v reflect.Value, seen map[uintptr]bool, depth int) {
	if depth > 12 || !v.IsValid() {
		sb.WriteString("?")
		return
	}
	switch v.Kind() {
	case reflect.Ptr:
		if v.IsNil() {
			sb.WriteString("nil")
			return
		}
		if seen[v.Pointer()] {
			sb.WriteString("cycle")
			return
		}
		seen[v.Pointer()] = true
		sb.WriteString("&")
		deepWrite(sb, v.Elem(), seen, depth+1)
	case reflect.Interface:
		if v.IsNil() {
			sb.WriteString("nil")
			return
		}
		deepWrite(sb, v.Elem(), seen, depth+1)
	case reflect.Struct:
		sb.WriteString(v.Type().String() + "{")
		for i := 0; i < v.NumField(); i++ {
			deepWrite(sb, v.Field(i), seen, depth+1)
			sb.WriteString(",")
		}
		sb.WriteString("}")
	case reflect.Slice, reflect.Array:
		if v.Kind() == reflect.Slice && v.IsNil() {
			sb.WriteString("nil")
			return
		}
		fmt.Fprintf(sb, "[%d:", v.Len())
		for i := 0; i < v.Len(); i++ {
			deepWrite(sb, v.Index(i), seen, depth+1)
			sb.WriteString(",")
		}
		sb.WriteString("]")
	case reflect.Map:
		if v.IsNil() {
			sb.WriteString("nil")
			return
		}
		var rows []string
		it := v.MapRange()
		for it.Next() {
			var row strings.Builder
			deepWrite(&row, it.Key(), seen, depth+1)
			row.WriteString("=>")
			deepWrite(&row, it.Value(), seen, depth+1)
			rows = append(rows, row.String())
		}
		sort.Strings(rows)
		fmt.Fprintf(sb, "map[%d:%s]", len(rows), strings.Join(rows, ","))
	case reflect.String:
		fmt.Fprintf(sb, "%q", v.String())
	case reflect.Bool:
		fmt.Fprintf(sb, "%v", v.Bool())
	case reflect.Int, reflect.Int8, reflect.Int16, reflect.Int32, reflect.Int64:
		fmt.Fprintf(sb, "%d", v.Int())
	case reflect.Uint, reflect.Uint8, reflect.Uint16, reflect.Uint32, reflect.Uint64, reflect.Uintptr:
		fmt.Fprintf(sb, "%d", v.Uint())
	case reflect.Float32, reflect.Float64:
		fmt.Fprintf(sb, "%v", v.Float())
	case reflect.Complex64, reflect.Complex128:
		fmt.Fprintf(sb, "%v", v.Complex())
	case reflect.Func, reflect.Chan, reflect.UnsafePointer:
		if v.IsNil() {
			sb.WriteString("nil")
		} else {
			sb.WriteString(v.Kind().String())
		}
	default:
		sb.WriteString(v.Kind().String())
	}
}

// ---- running a case --------------------------------------------------------

// namesTable is the union of the jobs' (path -> declared name) tables: the one map
// object a generator typically shares between all the Files it builds.
func namesTable(cc *ConcCase) map[string]string {
	t := map[string]string{}
	for _, j := range cc.Jobs {
		for _, p := range j.Recipe.Paths {
			if _, ok := t[p.Path]; !ok {
				t[p.Path] = p.Name
			}
		}
	}
	return t
}

func copyNames(t map[string]string) map[string]string {
	c := make(map[string]string, len(t))
	for k, v := range t {
		c[k] = v
	}
	return c
}

func sameNames(a, b map[string]string) bool {
	if len(a) != len(b) {
		return false
	}
	for k, v := range a {
		if w, ok := b[k]; !ok || w != v {
			return false
		}
	}
	return true
}

type jobResult struct {
	hist     []Outcome
	panicMsg string
}

// soloRun runs one job alone; names is the names table it passes to ImportNames
// (a private copy for reference runs, the shared object for the sequential leg).
func soloRun(j ConcJob, names map[string]string, saveDir ...string) (jobResult, *fileSim) {
	sim := j.Exec.sim()
	var res jobResult
	func() {
		defer func() {
			if p := recover(); p != nil {
				res.panicMsg = fmt.Sprint(p)
			}
		}()
		env := newEnv(sim)
		env.SharedNames = names
		if len(saveDir) > 1 {
			env.FlatSaveDir, env.SaveTag = saveDir[0], saveDir[1]
		}
		res.hist = Exec(j.Recipe, env)
	}()
	return res, sim
}

// compareJob reports the first difference between a job's result and its solo reference.
func compareJob(job int, what string, ref, got jobResult) *Violation {
	if ref.panicMsg != got.panicMsg {
		return &Violation{Rule: "C09-O1-result-differs", Exec: job, Detail: fmt.Sprintf("job %d %s: panic %q, alone: %q", job, what, got.panicMsg, ref.panicMsg)}
	}
	if len(ref.hist) != len(got.hist) {
		return &Violation{Rule: "C09-O1-result-differs", Exec: job, Detail: fmt.Sprintf("job %d %s: %d ops completed, alone: %d", job, what, len(got.hist), len(ref.hist))}
	}
	for i := range ref.hist {
		a, b := &ref.hist[i], &got.hist[i]
		if !a.Render {
			continue
		}
		if a.class() != b.class() {
			return &Violation{Rule: "C09-O1-result-differs", Exec: job, Op: i,
				Detail:   fmt.Sprintf("job %d op %d (%s %s) %s ended %q; the same job run alone ends %q", job, i, a.Kind, a.Obj, what, b.class(), a.class()),
				Expected: a.class() + " " + trunc(a.Err+a.Panic, 300), Observed: b.class() + " " + trunc(b.Err+b.Panic, 300)}
		}
		if a.OK && !bytes.Equal(a.Out, b.Out) {
			return &Violation{Rule: "C09-O1-result-differs", Exec: job, Op: i,
				Detail:   fmt.Sprintf("job %d op %d (%s %s) %s rendered different bytes than the same job run alone; %s", job, i, a.Kind, a.Obj, what, firstDiff(a.Out, b.Out)),
				Expected: trunc(string(a.Out), 1200), Observed: trunc(string(b.Out), 1200)}
		}
	}
	return nil
}

func runInterleaved(cc *ConcCase, estSteps uint64, pristine string, names map[string]string, saveDir string, ri *RunInfo) ([]jobResult, *concSim) {
	s := &concSim{spec: cc.Sched, rng: NewRNG(cc.Sched.Seed), mainWake: make(chan struct{}), replay: map[uint64]int{}, changeAt: map[uint64]bool{}}
	for _, sw := range cc.Sched.Switches {
		s.replay[sw.At] = sw.To
	}
	n := len(cc.Jobs)
	s.prio = make([]int, n)
	if cc.Sched.Kind == "pct" {
		p := s.rng.Perm(n)
		for i := range p {
			s.prio[i] = p[i] + 1
		}
		for i := 0; i < cc.Sched.D; i++ {
			s.changeAt[1+s.rng.U64()%(estSteps+1)] = true
		}
	}
	if simhook.Meta["pkg_has_sync"] != "true" {
		s.globals0 = pristine
		s.checkEvery = 256
	}
	for i := range cc.Jobs {
		s.tasks = append(s.tasks, &concTask{id: i, wake: make(chan struct{}), sim: cc.Jobs[i].Exec.sim()})
	}
	results := make([]jobResult, n)
	simhook.ResetKeys()
	simhook.ResetRun()
	simhook.Hot = 0
	prev := simhook.Cur
	simhook.Cur = s
	defer func() { simhook.Cur = prev }()
	for i := range cc.Jobs {
		t := s.tasks[i]
		job := cc.Jobs[i]
		go func() {
			<-t.wake
			func() {
				defer func() {
					if p := recover(); p != nil {
						results[t.id].panicMsg = fmt.Sprint(p)
					}
				}()
				env := newEnv(nil)
				env.SharedNames = names
				env.FlatSaveDir, env.SaveTag = saveDir, fmt.Sprintf("job%d", t.id)
				env.RenderHook = func(in bool) { t.inRender = in }
				results[t.id].hist = execBody(job.Recipe, env, nil)
			}()
			s.finish(t)
		}()
	}
	first := 0
	switch cc.Sched.Kind {
	case "pct":
		first = s.top(-1)
	case "replay":
		if to, ok := s.replay[0]; ok && to >= 0 && to < n {
			first = to
		}
	default:
		first = s.rng.Intn(n)
	}
	s.log = append(s.log, SwitchRec{At: 0, To: first})
	s.cur = first
	s.tasks[first].wake <- struct{}{}
	<-s.mainWake
	return results, s
}

type propC09 struct{}

func init() { register(propC09{}) }

func (propC09) ID() string    { return "C09" }
func (propC09) Level() string { return "exploration" }
func (propC09) Rule() string {
	return "a case = 2..6 (thorough ..12) independent seeded build+configure+render jobs run as tasks of a cooperative scheduler with a yield before every statement of package jen (strategies: random walk with switch probability 1/2^k, k in {1,3,6,9}; PCT-style priorities with 1..4 change points; hot-spot: preemption with probability 1/2 right after a filesystem, lock or pool operation and 1/512 elsewhere), compared job by job with the same job run alone and with a sequential run in a seeded order, with a deep digest of jen's package-level variables checked every 256 steps; or (mode share) 2..3 Files with different settings sharing sub-statements, rendered one after another in a seeded order and compared with private rebuilds; distinct = distinct switch-sequence digest; non-trivial = >=2 tasks and >=1 baton switch inside a render call (share mode: a shared statement rendered by >=2 Files)"
}
func (propC09) Runs(tier string) int {
	if tier == "thorough" {
		return 300000
	}
	return 8000
}

// genJob draws one build+render job. orderSafe jobs avoid the known map-order-dependent
// shapes (they run on the plain package, whose map order nobody controls).
func genJob(r *RNG, paths []PathSpec, small bool, salt ...string) *Recipe {
	cfg := baseCfg(r)
	cfg.NPaths = r.Range(1, 5)
	cfg.NStd = r.Intn(2)
	cfg.Depth = r.Range(1, 2)
	if r.Chance(0.2) && !small {
		cfg.KeyQualMode = 2 // order-dependence inside one job is fine here: its solo run takes the same decisions
	}
	g := &Gen{r: r, cfg: cfg, lits: true}
	if len(salt) > 0 {
		g.hostSalt = salt[0]
	}
	if paths != nil {
		g.paths = paths
	} else {
		g.universe()
	}
	rec := &Recipe{Paths: g.paths}
	rec.File = genFileSpec(g, r, true)
	rec.Ops = append(rec.Ops, genConfigOps(g, r, true)...)
	if r.Chance(0.35) {
		// the names table every job of the case shares, then (sometimes) a second, private one
		rec.Ops = append(rec.Ops, Op{K: "hint_names_shared"})
		if r.Chance(0.4) {
			var ps []int
			for k := r.Range(1, len(g.paths)); k > 0; k-- {
				ps = append(ps, r.Intn(len(g.paths)))
			}
			rec.Ops = append(rec.Ops, Op{K: "hint_names_alt", P: ps})
		}
	}
	for i := r.Range(1, 3); i > 0; i-- {
		rec.Ops = append(rec.Ops, Op{K: "add", Node: g.decl()})
	}
	if paths == nil {
		for i := r.Intn(2); i > 0; i-- {
			rec.Frags = append(rec.Frags, g.fragment())
		}
	}
	if r.Chance(0.3) {
		// blank lines between declarations; sometimes with something chained onto one of them
		rec.Ops = append(rec.Ops, Op{K: "line"})
		if r.Chance(0.4) {
			rec.Ops = append(rec.Ops, Op{K: "line_comment", S: fmt.Sprintf("note %d", r.Intn(1000))})
		}
		rec.Ops = append(rec.Ops, Op{K: "add", Node: g.decl()})
	}
	if r.Chance(0.4) {
		// var E<k> = <Empty()|Null()|Add()|Op("")>.Add(x).Op("+").Add(y): what is chained onto such a
		// constructor's result belongs to this job's statement alone
		for i := r.Range(1, 2); i > 0; i-- {
			rec.Ops = append(rec.Ops, Op{K: "add", Node: &Node{K: "var", S: fmt.Sprintf("E%d", r.Intn(1000)), N: []*Node{{K: "ctorchain", I: r.Intn(4), N: []*Node{g.leaf(-1), g.leaf(-1)}}}}})
		}
	}
	rec.Ops = append(rec.Ops, Op{K: "render"})
	if r.Chance(0.25) {
		rec.Ops = append(rec.Ops, Op{K: "save", F: &FSPlan{Target: "fresh"}})
	}
	if paths == nil && r.Chance(0.06) {
		// a job that fails a lot (invalid fragment rendered repeatedly) next to jobs that must not care
		rec.Frags = append(rec.Frags, &Node{K: "bad"})
		for i := r.Range(3, 6); i > 0; i-- {
			rec.Ops = append(rec.Ops, Op{K: r.Pick([]string{"render_frag", "render_frag_nofile"}), I: len(rec.Frags) - 1})
		}
		rec.Ops = append(rec.Ops, Op{K: "render"})
	}
	if paths == nil && len(g.paths) > 0 && r.Chance(0.15) {
		// a statement that refers to a package AND cannot be formatted, rendered without a
		// File: whatever the failed call registered must be gone with it (package state is
		// watched by O2; a later File-less render must name its packages as if alone)
		rec.Frags = append(rec.Frags, &Node{K: "call", N: []*Node{g.qual(-1), {K: "bad"}}})
		rec.Ops = append(rec.Ops, Op{K: r.Pick([]string{"render_frag_nofile", "render_group_nofile"}), I: len(rec.Frags) - 1},
			Op{K: "render_frag_nofile", I: r.Intn(len(rec.Frags))})
	}
	for i := r.Intn(3); i > 0; i-- {
		switch {
		case len(rec.Frags) > 0 && r.Chance(0.4):
			rec.Ops = append(rec.Ops, Op{K: "render_frag", I: r.Intn(len(rec.Frags))})
		case r.Chance(0.3):
			rec.Ops = append(rec.Ops, Op{K: "add", Node: g.decl()}, Op{K: "render"})
		default:
			rec.Ops = append(rec.Ops, Op{K: "render"})
		}
	}
	return rec
}

func (propC09) Gen(seed uint64, tier string) *Case {
	r := NewRNG(seed)
	cc := &ConcCase{Mode: "interleave"}
	if r.Chance(0.25) {
		cc.Mode = "share"
	}
	if cc.Mode == "share" {
		// one universe, shared fragments, Files with different settings
		cfg := baseCfg(r)
		cfg.NPaths = r.Range(2, 5)
		cfg.CaseOdd = 0.4
		cfg.PSwitch = 0.4
		g := &Gen{r: r, cfg: cfg, lits: true}
		g.universe()
		var frags []*Node
		for i := r.Range(1, 3); i > 0; i-- {
			frags = append(frags, g.fragment())
		}
		nf := r.Range(2, 3)
		for i := 0; i < nf; i++ {
			rec := genJob(r, g.paths, false)
			rec.Frags = frags
			if r.Chance(0.5) {
				// the shared statement also sits inside a function body of this File
				rec.Ops = append([]Op{{K: "add", Node: &Node{K: "func", S: fmt.Sprintf("V_9%d", i), B: []*Node{{K: "shared", I: r.Intn(len(frags))}, {K: "ret", N: []*Node{{K: "int", I: i}}}}}}}, rec.Ops...)
			}
			// place shared fragments before the first render
			var ops []Op
			placed := false
			for _, op := range rec.Ops {
				if op.K == "render" && !placed {
					for k := range frags {
						if r.Chance(0.8) {
							if r.Chance(0.3) {
								ops = append(ops, Op{K: "addfrag_chain", I: k, S: fmt.Sprintf("only in file %d", i)})
							} else {
								ops = append(ops, Op{K: "addfrag", I: k})
							}
						}
					}
					placed = true
				}
				ops = append(ops, op)
			}
			if r.Chance(0.5) {
				ops = append(ops, Op{K: "render_frag", I: r.Intn(len(frags))}, Op{K: "render"})
			}
			rec.Ops = ops
			cc.Jobs = append(cc.Jobs, ConcJob{Recipe: rec, Exec: ExecSpec{Mode: "shuffle", Seed: Mix(seed, uint64(100+i))}})
		}
		cc.Order = r.Perm(nf)
	} else {
		nj := r.Range(2, 6)
		if tier == "thorough" && r.Chance(0.3) {
			nj = r.Range(6, 12)
		}
		for i := 0; i < nj; i++ {
			cc.Jobs = append(cc.Jobs, ConcJob{Recipe: genJob(r, nil, false), Exec: ExecSpec{Mode: "shuffle", Seed: Mix(seed, uint64(100+i))}})
		}
		cc.Order = r.Perm(nj)
		if x := r.Intn(10); x < 3 {
			cc.Sched = SchedSpec{Kind: "pct", D: r.Range(1, 4), Seed: Mix(seed, 9)}
		} else if x < 6 {
			cc.Sched = SchedSpec{Kind: "hot", Seed: Mix(seed, 9)}
		} else {
			cc.Sched = SchedSpec{Kind: "walk", K: []int{1, 3, 6, 9}[r.Intn(4)], Seed: Mix(seed, 9)}
		}
	}
	c := &Case{Property: "C09", Seed: seed, Tier: tier, Conc: cc}
	c.Cfg, _ = json.Marshal(map[string]interface{}{"mode": cc.Mode, "jobs": len(cc.Jobs), "sched": cc.Sched.Kind})
	return c
}

func (propC09) Check(c *Case) (*Violation, *RunInfo) {
	ri := &RunInfo{}
	cc := c.Conc
	if cc.Mode == "race" {
		return checkRaceCase(c, ri)
	}
	// O2 anchor: the package state a fresh process starts with (runCheck has just restored it)
	pristine := ""
	if simhook.Meta["pkg_has_sync"] != "true" {
		pristine = globalsDigest()
	}
	var viol *Violation
	globalsChanged := func(when string) {
		if viol == nil && pristine != "" && globalsDigest() != pristine {
			viol = &Violation{Rule: "C09-O2-global-state-written", Detail: "a package-level variable of package jen changed " + when + " (in a package without synchronisation that is a data race between concurrent callers, and later Files see what earlier ones left behind)"}
		}
	}
	// directories for Save ops: one per reference run, one shared by all jobs of a leg
	sb := sandboxDir()
	defer cleanSandbox(sb)
	for _, d := range []string{"solo", "seq", "conc", "share"} {
		os.MkdirAll(sb+"/"+d, 0755)
	}
	// solo references
	refs := make([]jobResult, len(cc.Jobs))
	table := namesTable(cc)
	shared := copyNames(table) // the one object all jobs share outside the reference runs
	callerMapIntact := func(when string) {
		if viol == nil && !sameNames(shared, table) {
			viol = &Violation{Rule: "C09-caller-map-modified", Detail: "the names table passed to ImportNames by several Files was modified by the library " + when + ": one File's hints leak into every other File built from the same table"}
		}
	}
	frozen := &ConcCase{Mode: cc.Mode, Order: cc.Order, Sched: cc.Sched}
	var est uint64
	for i, j := range cc.Jobs {
		var sim *fileSim
		os.MkdirAll(fmt.Sprintf("%s/solo/%d", sb, i), 0755)
		restoreGlobals() // each reference is the job alone in a fresh process
		refs[i], sim = soloRun(j, copyNames(table), fmt.Sprintf("%s/solo/%d", sb, i), fmt.Sprintf("job%d", i))
		globalsChanged(fmt.Sprintf("while job %d was built and rendered alone", i))
		est += sim.Steps
		frozen.Jobs = append(frozen.Jobs, ConcJob{Recipe: j.Recipe, Exec: frozenSpec(sim)})
		for _, o := range refs[i].hist {
			if o.Render {
				ri.count("solo_renders_"+errClass(&o), 1)
			}
		}
	}
	ri.FrozenConc = frozen
	ri.Steps = est
	if cc.Mode == "share" {
		// shared Code values, Files rendered one after another
		ctx := &bctx{paths: cc.Jobs[0].Recipe.Paths}
		simhook.ResetKeys()
		var sharedFrags []*jen.Statement
		for _, fr := range cc.Jobs[0].Recipe.Frags {
			st, ok := ctx.build(fr).(*jen.Statement)
			if !ok {
				st = jen.Null()
			}
			sharedFrags = append(sharedFrags, st)
		}
		sharedRenders := 0
		for _, ji := range cc.Order {
			if ji >= len(cc.Jobs) {
				continue
			}
			j := cc.Jobs[ji]
			sim := j.Exec.sim()
			var got jobResult
			func() {
				prev := simhook.Cur
				simhook.Cur = sim
				defer func() {
					simhook.Cur = prev
					if p := recover(); p != nil {
						got.panicMsg = fmt.Sprint(p)
					}
				}()
				env := newEnv(sim)
				env.SharedNames = shared
				env.FlatSaveDir, env.SaveTag = sb+"/share", fmt.Sprintf("job%d", ji)
				got.hist = execBody(j.Recipe, env, sharedFrags)
			}()
			for _, op := range j.Recipe.Ops {
				if op.K == "addfrag" || op.K == "addfrag_chain" {
					sharedRenders++
					break
				}
			}
			if viol == nil {
				if v := compareJob(ji, "with sub-statements shared with other Files", refs[ji], got); v != nil {
					v.Rule = "C09-shared-code-differs"
					viol = v
				}
			}
		}
		callerMapIntact("while Files sharing it were built one after another")
		ri.Nontrivial = sharedRenders >= 2
		ri.count("share_cases", 1)
		ri.Key = digest("share", cc.Order, frozen.Jobs)
		ri.Inter = ri.Key
		return viol, ri
	}
	// sequential leg: jobs one after another in a seeded order
	for _, ji := range cc.Order {
		if ji >= len(cc.Jobs) {
			continue
		}
		got, _ := soloRun(cc.Jobs[ji], shared, sb+"/seq", fmt.Sprintf("job%d", ji))
		if viol == nil {
			if v := compareJob(ji, "after the other jobs (sequential order)", refs[ji], got); v != nil {
				viol = v
			}
		}
	}
	callerMapIntact("in the sequential leg")
	// interleaved leg
	if simhook.Meta["pkg_spawns_goroutines"] != "" && simhook.Meta["pkg_spawns_goroutines"] != "0" {
		// package jen starts goroutines of its own: they would run outside the baton, so the
		// cooperative scheduler cannot own the interleaving; the sequential, share and race legs remain
		ri.count("interleaved_leg_skipped_pkg_spawns_goroutines", 1)
		ri.Key = digest("seq", frozen.Jobs)
		ri.Inter = ri.Key
		ri.Nontrivial = len(cc.Jobs) >= 2
		return viol, ri
	}
	results, s := runInterleaved(cc, est, pristine, shared, sb+"/conc", ri)
	callerMapIntact("in the interleaved leg")
	ri.Steps += s.step
	frozen.Sched = SchedSpec{Kind: "replay", Switches: s.log}
	ri.count("baton_switches", len(s.log))
	ri.count("baton_switches_inside_render", s.switchesInRnd)
	ri.count("sched_"+cc.Sched.Kind, 1)
	ri.count("lock_contention_switches", s.blockedSwitches)
	ri.count("yields_right_after_fs_lock_or_pool_operations", s.hotYields)
	if s.deadlock != "" && viol == nil {
		viol = &Violation{Rule: "C09-deadlock", Detail: "independent jobs deadlock: " + s.deadlock}
	}
	if s.runaway {
		ri.Vacuous = true
	}
	if viol == nil && s.globalsViol != "" {
		viol = &Violation{Rule: "C09-O2-global-state-written", Detail: "a package-level variable of package jen changed " + s.globalsViol + " (in a package without synchronisation that is a data race between concurrent callers)"}
	}
	if viol == nil {
		for i := range cc.Jobs {
			if v := compareJob(i, "interleaved with the other jobs", refs[i], results[i]); v != nil {
				viol = v
				break
			}
		}
	}
	ri.Nontrivial = len(cc.Jobs) >= 2 && s.switchesInRnd >= 1
	ri.Inter = digest(s.log)
	ri.Key = ri.Inter
	return viol, ri
}

// Shrink: fewer jobs, fewer switches.
func (propC09) Shrink(c *Case, v *Violation) []*Case {
	cc := c.Conc
	var out []*Case
	mk := func(nc *ConcCase) *Case {
		x := *c
		x.Conc = nc
		return &x
	}
	if cc.Mode == "race" {
		return nil
	}
	for i := len(cc.Jobs) - 1; i >= 0 && len(cc.Jobs) > 1; i-- {
		nc := *cc
		nc.Jobs = append(append([]ConcJob{}, cc.Jobs[:i]...), cc.Jobs[i+1:]...)
		nc.Order = nil
		for _, o := range cc.Order {
			switch {
			case o < i:
				nc.Order = append(nc.Order, o)
			case o > i:
				nc.Order = append(nc.Order, o-1)
			}
		}
		var sw []SwitchRec
		for _, s := range cc.Sched.Switches {
			switch {
			case s.To < i:
				sw = append(sw, s)
			case s.To > i:
				sw = append(sw, SwitchRec{At: s.At, To: s.To - 1})
			}
		}
		nc.Sched.Switches = sw
		out = append(out, mk(&nc))
	}
	// delta-debug the switch list: drop halves, then single switches
	sw := cc.Sched.Switches
	if cc.Sched.Kind == "replay" && len(sw) > 1 {
		for chunk := len(sw) / 2; chunk >= 1; chunk /= 2 {
			for start := 0; start+chunk <= len(sw) && len(out) < 400; start += chunk {
				nc := *cc
				nc.Sched.Switches = append(append([]SwitchRec{}, sw[:start]...), sw[start+chunk:]...)
				out = append(out, mk(&nc))
			}
			if chunk == 1 {
				break
			}
		}
	}
	// shrink each job's recipe with the generic candidates
	for ji := range cc.Jobs {
		ji := ji
		sub := &Case{Recipe: cc.Jobs[ji].Recipe, Execs: []ExecSpec{cc.Jobs[ji].Exec}}
		for k, mkc := range candidates(sub, &Violation{Op: -1}) {
			if k > 60 {
				break
			}
			var cand *Case
			func() {
				defer func() { recover() }()
				cand = mkc()
			}()
			if cand == nil || cand.Recipe == nil {
				continue
			}
			nc := *cc
			nc.Jobs = append([]ConcJob{}, cc.Jobs...)
			nc.Jobs[ji] = ConcJob{Recipe: cand.Recipe, Exec: cc.Jobs[ji].Exec}
			if cc.Mode == "share" {
				continue // shared fragments live in every job's recipe; keep them aligned
			}
			out = append(out, mk(&nc))
		}
	}
	return out
}

// ---- auxiliary leg: real goroutines under the race detector -------------------

// raceBatch runs the jobs on real goroutines (plain package, race-enabled binary).
func raceBatch(jobs []ConcJob, repeat int) (mismatch string) {
	table := namesTable(&ConcCase{Jobs: jobs})
	shared := copyNames(table)
	sb := sandboxDir()
	defer cleanSandbox(sb)
	os.MkdirAll(sb+"/conc", 0755)
	// the concurrent batches run first, on whatever state the process is in (cold on the
	// first round); the solo references are taken afterwards
	var all [][]jobResult
	for rep := 0; rep < repeat; rep++ {
		results := make([]jobResult, len(jobs))
		var wg sync.WaitGroup
		start := make(chan struct{})
		for i := range jobs {
			wg.Add(1)
			go func(i int) {
				defer wg.Done()
				defer func() {
					if p := recover(); p != nil {
						results[i].panicMsg = fmt.Sprint(p)
					}
				}()
				<-start
				env := newEnv(nil)
				env.SharedNames = shared
				env.FlatSaveDir, env.SaveTag = sb+"/conc", fmt.Sprintf("job%d", i)
				results[i].hist = execBody(jobs[i].Recipe, env, nil)
			}(i)
		}
		close(start)
		wg.Wait()
		all = append(all, results)
		raceBeat.Store(time.Now().UnixNano())
	}
	refs := make([]jobResult, len(jobs))
	for i, j := range jobs {
		raceBeat.Store(time.Now().UnixNano())
		os.MkdirAll(fmt.Sprintf("%s/solo%d", sb, i), 0755)
		refs[i], _ = soloRun(j, copyNames(table), fmt.Sprintf("%s/solo%d", sb, i), fmt.Sprintf("job%d", i))
	}
	if !sameNames(shared, table) {
		mismatch = "the names table shared by the jobs was modified by the library"
	}
	for _, results := range all {
		for i := range jobs {
			if v := compareJob(i, "on a real goroutine next to the other jobs", refs[i], results[i]); v != nil && mismatch == "" {
				mismatch = v.Detail
			}
		}
	}
	return mismatch
}

func raceJobs(seed uint64, n int) []ConcJob {
	r := NewRNG(seed)
	var jobs []ConcJob
	salt := fmt.Sprintf("r%x.", seed&0xffffff) // paths no earlier round has touched
	for i := 0; i < n; i++ {
		jobs = append(jobs, ConcJob{Recipe: genJob(r, nil, true, salt), Exec: ExecSpec{Mode: "identity"}})
	}
	return jobs
}

var raceBeat atomic.Int64

// raceWatchdog: the race-enabled binary is linked with cgo, which switches the runtime's
// deadlock detector off, so a blocked-forever state needs a wall-clock limit: no progress
// (a finished batch or solo run) for 120 s on work that takes milliseconds.
func raceWatchdog() {
	raceBeat.Store(time.Now().UnixNano())
	go func() {
		for {
			time.Sleep(3 * time.Second)
			if time.Since(time.Unix(0, raceBeat.Load())) > 120*time.Second {
				buf := make([]byte, 1<<16)
				n := runtime.Stack(buf, true)
				fmt.Printf("RACE-LEG-STUCK: no build+render job made progress for 120s\n%s\n", buf[:n])
				os.Exit(67)
			}
		}
	}()
}

// raceSweep (runs inside the race-enabled plain binary): rounds of 16 fresh jobs.
func raceSweep(base uint64, rounds int) int {
	raceWatchdog()
	for rd := 0; rd < rounds; rd++ {
		jobs := raceJobs(Mix(base, 0xace, uint64(rd)), 16)
		if m := raceBatch(jobs, 2); m != "" {
			fmt.Printf("RACE-LEG-MISMATCH round=%d %s\n", rd, m)
			return 1
		}
		fmt.Printf("ROUND %d done\n", rd)
	}
	return 0
}

func raceExecFile(path string) int {
	b, err := os.ReadFile(path)
	if err != nil {
		fatal2("%v", err)
	}
	var c Case
	if err := json.Unmarshal(b, &c); err != nil || c.Conc == nil {
		fatal2("bad race case file")
	}
	rep := c.Conc.Repeat
	if rep <= 0 {
		rep = 10
	}
	raceWatchdog()
	if m := raceBatch(c.Conc.Jobs, rep); m != "" {
		fmt.Printf("RACE-LEG-MISMATCH %s\n", m)
		return 1
	}
	return 0
}

func runRaceBinary(args ...string) (out string, code int, err error) {
	bin := os.Getenv("VERIF_SIMRUN_RACE")
	if bin == "" {
		return "", 0, fmt.Errorf("VERIF_SIMRUN_RACE not set")
	}
	if _, e := os.Stat(bin); e != nil {
		return "", 0, fmt.Errorf("race-enabled runner not built: %v", e)
	}
	ctx, cancel := context.WithTimeout(context.Background(), 3*time.Hour)
	defer cancel()
	cmd := exec.CommandContext(ctx, bin, args...)
	cmd.Env = append(os.Environ(), "GORACE=halt_on_error=1 exitcode=66", "GOMAXPROCS=16")
	b, _ := cmd.CombinedOutput()
	code = -1
	if cmd.ProcessState != nil {
		code = cmd.ProcessState.ExitCode()
	}
	return string(b), code, nil
}

func raceVerdict(out string, code int) *Violation {
	switch {
	case code == 66 || strings.Contains(out, "WARNING: DATA RACE"):
		return &Violation{Rule: "C09-O3-data-race", Detail: "the race detector reports a data race between independent build+render jobs on different goroutines", Observed: trunc(out, 3000)}
	case strings.Contains(out, "fatal error: concurrent map"):
		return &Violation{Rule: "C09-O3-data-race", Detail: "runtime: concurrent map access between independent jobs", Observed: trunc(out, 3000)}
	case code == 67 || strings.Contains(out, "RACE-LEG-STUCK"):
		return &Violation{Rule: "C09-deadlock", Detail: "independent build+render jobs on different goroutines block forever (real-goroutine leg: no job made progress for 120 s on work that takes milliseconds)", Observed: trunc(out, 3000)}
	case strings.Contains(out, "RACE-LEG-MISMATCH"):
		i := strings.Index(out, "RACE-LEG-MISMATCH")
		return &Violation{Rule: "C09-O1-result-differs", Detail: "real-goroutine leg: " + trunc(out[i:], 600)}
	}
	return nil
}

func checkRaceCase(c *Case, ri *RunInfo) (*Violation, *RunInfo) {
	f, err := os.CreateTemp(os.Getenv("VERIF_SCRATCH_DIR"), "racecase-*.json")
	if err != nil {
		fatal2("%v", err)
	}
	defer os.Remove(f.Name())
	b, _ := json.Marshal(c)
	f.Write(b)
	f.Close()
	out, code, err := runRaceBinary("raceexec", f.Name())
	if err != nil {
		fatal2("race leg: %v", err)
	}
	ri.Key = digest(c.Conc.Jobs)
	ri.Nontrivial = true
	if v := raceVerdict(out, code); v != nil {
		return v, ri
	}
	if code != 0 {
		fatal2("race leg exited %d:\n%s", code, trunc(out, 2000))
	}
	return nil, ri
}

// Post runs the real-goroutine race leg after the simulated sweep.
func (propC09) Post(tier string, base uint64) ([]workerViolation, map[string]int, error) {
	rounds := 25
	if tier == "thorough" {
		rounds = 1500
	}
	counters := map[string]int{}
	if os.Getenv("VERIF_NO_RACE_LEG") != "" { // diagnostics only: measure what the simulated legs catch on their own
		return nil, counters, nil
	}
	out, code, err := runRaceBinary("racesweep", fmt.Sprint(base), fmt.Sprint(rounds))
	if err != nil {
		return nil, counters, fmt.Errorf("race leg: %v", err)
	}
	done := strings.Count(out, "ROUND ")
	counters["race_leg_rounds_of_16_jobs_x2"] = done
	v := raceVerdict(out, code)
	if v == nil {
		if code != 0 {
			return nil, counters, fmt.Errorf("race leg exited %d:\n%s", code, trunc(out, 2000))
		}
		return nil, counters, nil
	}
	rd := done // the round that was running
	jobs := raceJobs(Mix(base, 0xace, uint64(rd)), 16)
	c := &Case{Property: "C09", Seed: Mix(base, 0xace, uint64(rd)), Tier: tier, Conc: &ConcCase{Mode: "race", Jobs: jobs, Repeat: 20}}
	v.Detail += fmt.Sprintf(" (race-leg round %d; the schedule of this leg is the Go runtime's, so the replay file carries the 16 jobs and a repeat count)", rd)
	return []workerViolation{{Index: -1 - rd, Seed: c.Seed, V: v, Case: c}}, counters, nil
}
