package main

import (
	"fmt"
	"go/token"
)

// GenCfg is the swarm configuration of one run's recipe generator.
type GenCfg struct {
	NPaths      int     `json:"npaths"`
	NStd        int     `json:"nstd"`
	Depth       int     `json:"depth"`
	PQual       float64 `json:"pqual"`
	PDict       float64 `json:"pdict"`
	PTag        float64 `json:"ptag"`
	PSwitch     float64 `json:"pswitch"`
	DictMax     int     `json:"dictmax"`
	KeyQualMode int     `json:"keyqual"` // 0 none in Dict keys, 1 one path per Dict, 2 free (known-finding trigger: registration in map order)
	EqualKeys   float64 `json:"equalkeys"`
	NullSides   float64 `json:"nullsides"`
	CaseOdd     float64 `json:"caseodd"` // empty / nil-only / Null-only case blocks
	Bad         float64 `json:"bad"`
	BlockFunc   float64 `json:"blockfunc"`
	DeclaredOdd float64 `json:"declodd"` // declared package name differs from last path element
}

type Gen struct {
	r     *RNG
	cfg   GenCfg
	paths []PathSpec
	sym   int
	ids   int
	mark  int
	dicts int
	// noQual marks paths the generator never references (reserved for Anon-only use)
	noQual map[int]bool
	// lits: float/complex literals with corner cases and LitFunc callbacks may appear
	lits bool
	// late: some list items are placeholders (empty statements) that a later "fill" op extends
	late  bool
	slots []int
	// hostSalt prefixes fabricated hosts (fresh, never-seen paths per race-leg round)
	hostSalt string
}

var fabBases = []string{"d", "D", "d-go", "go-d", "d.v2", "v2", "1d", "für", "if", "len", "fmt", "rand", "x", "err", "int", "pkg", "d1", "d0", "template", "d_", "_2fa", "é3d", "-9p", ".hidden", "UPPER"}
var fabHosts = []string{"a.example", "b.example/x", "c.example/y/z", "d.example"}

// stdPool: standard-library paths with their real package names (verified against
// $GOROOT/src by selftest; these are facts about Go, not about jennifer's table).
var stdPool = []PathSpec{
	{"fmt", "fmt", true}, {"math/rand", "rand", true}, {"crypto/rand", "rand", true},
	{"text/template", "template", true}, {"html/template", "template", true},
	{"go/ast", "ast", true}, {"net/http", "http", true}, {"encoding/json", "json", true},
	{"unicode/utf8", "utf8", true}, {"os", "os", true}, {"io", "io", true}, {"strings", "strings", true},
	{"bytes", "bytes", true}, {"sort", "sort", true}, {"path/filepath", "filepath", true},
	{"go/token", "token", true}, {"text/scanner", "scanner", true}, {"go/scanner", "scanner", true},
	{"path", "path", true}, {"errors", "errors", true},
}

func validIdent(s string) bool { return token.IsIdentifier(s) && !token.IsKeyword(s) }

// universe draws the import paths of a run, biased to colliding base names.
func (g *Gen) universe() {
	nb := g.r.Range(1, 3)
	var bases []string
	for i := 0; i < nb; i++ {
		bases = append(bases, g.r.Pick(fabBases))
	}
	seen := map[string]bool{}
	nfab := g.cfg.NPaths - g.cfg.NStd
	for tries := 0; len(g.paths) < nfab && tries < 100; tries++ {
		p := g.hostSalt + g.r.Pick(fabHosts) + "/" + g.r.Pick(bases)
		if g.r.Chance(0.1) {
			p += "/"
		}
		if seen[p] {
			continue
		}
		seen[p] = true
		base := p
		for len(base) > 0 && base[len(base)-1] == '/' {
			base = base[:len(base)-1]
		}
		for i := len(base) - 1; i >= 0; i-- {
			if base[i] == '/' {
				base = base[i+1:]
				break
			}
		}
		name := base
		if !validIdent(name) || g.r.Chance(g.cfg.DeclaredOdd) {
			name = fmt.Sprintf("n%d", len(g.paths))
			if g.r.Chance(0.3) && len(g.paths) > 0 {
				name = g.paths[g.r.Intn(len(g.paths))].Name // same declared name as another package
			}
		}
		g.paths = append(g.paths, PathSpec{Path: p, Name: name})
	}
	for tries := 0; len(g.paths) < g.cfg.NPaths && tries < 100; tries++ {
		sp := stdPool[g.r.Intn(len(stdPool))]
		if seen[sp.Path] {
			continue
		}
		seen[sp.Path] = true
		g.paths = append(g.paths, sp)
	}
	// seeded order of the universe
	p := g.r.Perm(len(g.paths))
	out := make([]PathSpec, len(g.paths))
	for i, j := range p {
		out[i] = g.paths[j]
	}
	g.paths = out
}

func (g *Gen) id() string { return fmt.Sprintf("V_%d", g.r.Intn(6)) }

func (g *Gen) newID() string {
	g.ids++
	return fmt.Sprintf("V_%d", 100+g.ids)
}

func (g *Gen) qual(keyPath int) *Node {
	p := keyPath
	if p < 0 {
		p = g.r.Intn(len(g.paths))
		for tries := 0; g.noQual[p] && tries < 50; tries++ {
			p = g.r.Intn(len(g.paths))
		}
	}
	g.sym++
	return &Node{K: "qual", I: p, S: fmt.Sprintf("S%d_%d", p, g.sym)}
}

func (g *Gen) leaf(keyPath int) *Node {
	if len(g.paths) > 0 && g.r.Chance(g.cfg.PQual) && !(keyPath == -2) {
		return g.qual(keyPath)
	}
	switch g.r.Intn(3) {
	case 0:
		return &Node{K: "id", S: g.id()}
	case 1:
		if g.lits && g.r.Chance(0.12) {
			return &Node{K: "flt", I: g.r.Intn(10)}
		}
		if g.lits && g.r.Chance(0.04) && keyPath == -1 {
			g.mark++
			return &Node{K: "litfunc", I: g.mark}
		}
		return &Node{K: "int", I: g.r.Intn(100)}
	}
	return &Node{K: "str", S: g.r.Pick([]string{"a", "b c", "", "x\ny", "`q`", "http://e.x/p", "// not a comment", "a:b,c", "}{"})}
}

func (g *Gen) typ(depth, keyPath int) *Node {
	if depth <= 0 || g.r.Chance(0.5) {
		if len(g.paths) > 0 && g.r.Chance(g.cfg.PQual) && keyPath != -2 {
			return g.qual(keyPath)
		}
		return &Node{K: g.r.Pick([]string{"t_int", "t_string", "t_any"})}
	}
	switch g.r.Intn(3) {
	case 0:
		return &Node{K: "maptype", N: []*Node{g.typ(0, keyPath), g.typ(depth-1, keyPath)}}
	case 1:
		return &Node{K: "slicetype", N: []*Node{g.typ(depth-1, keyPath)}}
	}
	return &Node{K: "ptrtype", N: []*Node{g.typ(depth-1, keyPath)}}
}

// keyPathFor decides which path Dict-key-side quals may use below a new Dict.
// keyPath semantics: -1 free, -2 no quals, >=0 only that path.
func (g *Gen) keyPathFor(outer int) int {
	if outer != -1 {
		return outer // inside a key already: inherit
	}
	switch g.cfg.KeyQualMode {
	case 0:
		return -2
	case 1:
		if len(g.paths) == 0 {
			return -2
		}
		p := g.r.Intn(len(g.paths))
		for tries := 0; g.noQual[p] && tries < 50; tries++ {
			p = g.r.Intn(len(g.paths))
		}
		if g.noQual[p] {
			return -2
		}
		return p
	}
	return -1
}

func (g *Gen) dict(depth, keyPath int) *Node {
	g.dicts++
	n := &Node{K: "dict", ID: g.dicts, N: []*Node{{K: "maptype", N: []*Node{{K: "t_any"}, {K: "t_any"}}}}}
	if g.r.Chance(0.15) {
		n.K = "dictfunc"
	}
	kp := g.keyPathFor(keyPath)
	pairs := g.r.Range(0, g.cfg.DictMax)
	if g.r.Chance(0.5) {
		pairs = g.r.Range(2, max(2, g.cfg.DictMax))
	}
	for i := 0; i < pairs; i++ {
		var k *Node
		if i > 0 && g.r.Chance(g.cfg.EqualKeys) {
			k = cloneNode(n.KV[g.r.Intn(len(n.KV))][0]) // a distinct key with the same rendered text
			if k.K == "null" || k.K == "emptystmt" {
				k = g.dictKey(depth, kp)
			}
		} else {
			k = g.dictKey(depth, kp)
		}
		var v *Node
		if g.r.Chance(g.cfg.NullSides) {
			v = &Node{K: g.r.Pick([]string{"null", "emptystmt"})}
		} else {
			v = g.expr(depth-1, keyPath)
		}
		if g.r.Chance(g.cfg.NullSides / 2) {
			k = &Node{K: g.r.Pick([]string{"null", "emptystmt"})}
		}
		if g.cfg.EqualKeys == 0 {
			// no two keys of one Dict with equal text unless the swarm asked for them
			for tries := 0; tries < 8 && dupKey(n, k); tries++ {
				k = g.dictKey(depth, kp)
			}
			if dupKey(n, k) {
				continue
			}
		}
		n.KV = append(n.KV, [2]*Node{k, v})
	}
	return n
}

func (g *Gen) dictKey(depth, kp int) *Node {
	switch g.r.Intn(6) {
	case 0:
		return &Node{K: "str", S: fmt.Sprintf("k%d", g.r.Intn(12))}
	case 1:
		return &Node{K: "int", I: g.r.Intn(12)}
	case 2:
		return &Node{K: "call", N: []*Node{{K: "id", S: g.id()}}}
	case 3:
		if kp != -2 && len(g.paths) > 0 {
			return g.qual(kp)
		}
		return &Node{K: "id", S: g.id()}
	case 4:
		if kp != -2 && len(g.paths) > 0 {
			return &Node{K: "call", N: []*Node{g.qual(kp), g.leaf(kp)}}
		}
		return &Node{K: "id", S: g.id()}
	}
	if depth > 1 {
		return g.expr(depth-1, kp)
	}
	return g.leaf(kp)
}

// expr generates an expression. keyPath: see keyPathFor.
func (g *Gen) expr(depth, keyPath int) *Node {
	if depth <= 0 {
		return g.leaf(keyPath)
	}
	if g.r.Chance(g.cfg.PDict) {
		return g.dict(depth, keyPath)
	}
	switch g.r.Intn(9) {
	case 0:
		n := &Node{K: "call", N: []*Node{g.expr(depth-1, keyPath)}}
		for i := g.r.Intn(3); i > 0; i-- {
			n.N = append(n.N, g.expr(depth-1, keyPath))
		}
		return n
	case 1:
		return &Node{K: "sel", S: "F" + g.id(), N: []*Node{g.expr(depth-1, keyPath)}}
	case 2:
		return &Node{K: "bin", S: g.r.Pick([]string{"+", "-", "*", "==", "&&"}), N: []*Node{g.expr(depth-1, keyPath), g.expr(depth-1, keyPath)}}
	case 3:
		return &Node{K: "paren", N: []*Node{g.expr(depth-1, keyPath)}}
	case 4:
		n := &Node{K: "slice", N: []*Node{g.typ(1, keyPath)}}
		for i := g.r.Intn(4); i > 0; i-- {
			n.N = append(n.N, g.expr(depth-1, keyPath))
		}
		if g.r.Chance(g.cfg.NullSides) {
			n.N = append(n.N, &Node{K: "null"})
		}
		return n
	case 5:
		return &Node{K: "idx", N: []*Node{g.expr(depth-1, keyPath), g.expr(depth-1, keyPath)}}
	case 6:
		if keyPath == -1 { // function literals (with statements) only outside Dict keys
			return &Node{K: "funclit", B: g.stmts(depth-1, g.r.Range(0, 3))}
		}
	}
	return g.leaf(keyPath)
}

func (g *Gen) stmts(depth, n int) []*Node {
	var out []*Node
	for i := 0; i < n; i++ {
		out = append(out, g.stmt(depth))
	}
	return out
}

func (g *Gen) caseClause(depth int, def bool) *Node {
	n := &Node{K: "case"}
	if def {
		n.K = "default"
	} else {
		for i := g.r.Range(1, 3); i > 0; i-- {
			n.N = append(n.N, g.expr(min(depth, 1), -1))
		}
	}
	if g.r.Chance(g.cfg.CaseOdd) {
		n.I = g.r.Range(1, 3)
	} else if g.r.Chance(g.cfg.BlockFunc) {
		n.I = 4
		n.B = g.stmts(depth-1, g.r.Range(0, 2))
	} else {
		n.B = g.stmts(depth-1, g.r.Range(0, 2))
	}
	return n
}

func (g *Gen) stmt(depth int) *Node {
	if g.r.Chance(g.cfg.Bad) {
		return &Node{K: "bad"}
	}
	if depth > 0 && g.r.Chance(g.cfg.PSwitch) {
		n := &Node{K: "switch", N: []*Node{g.expr(1, -1)}}
		if g.r.Chance(g.cfg.BlockFunc) {
			n.I = 1
		}
		nc := g.r.Range(0, 3)
		for i := 0; i < nc; i++ {
			n.B = append(n.B, g.caseClause(depth, false))
		}
		if g.r.Chance(0.5) {
			n.B = append(n.B, g.caseClause(depth, true))
		}
		return n
	}
	switch g.r.Intn(7) {
	case 0:
		return &Node{K: "define", S: g.newID(), N: []*Node{g.expr(depth, -1)}}
	case 1:
		return &Node{K: "expr", N: []*Node{{K: "call", N: []*Node{g.expr(depth-1, -1), g.expr(depth, -1)}}}}
	case 2:
		return &Node{K: "ret", N: []*Node{g.expr(depth, -1)}}
	case 3:
		if depth > 0 {
			return &Node{K: "if", N: []*Node{g.expr(1, -1)}, B: g.stmts(depth-1, g.r.Range(0, 2))}
		}
	case 4:
		if depth > 0 {
			return &Node{K: "for", B: g.stmts(depth-1, g.r.Range(0, 2))}
		}
	case 5:
		return &Node{K: "comment", S: g.r.Pick([]string{"c", "two\nlines", "//raw", "/* block */"})}
	}
	return &Node{K: "assign", S: g.id(), N: []*Node{g.expr(depth, -1)}}
}

func (g *Gen) tag() [][2]string {
	n := g.r.Range(0, 5)
	seen := map[string]bool{}
	var t [][2]string
	for i := 0; i < n; i++ {
		k := g.r.Pick([]string{"json", "xml", "db", "yaml", "a", "b", "z", "Json"})
		if seen[k] {
			continue
		}
		seen[k] = true
		t = append(t, [2]string{k, g.r.Pick([]string{"x", "y,omitempty", "-", "a b", "q\"q", "back`tick"})})
	}
	if t == nil {
		t = [][2]string{}
	}
	return t
}

// decl generates one top-level declaration.
func (g *Gen) decl() *Node {
	d := g.cfg.Depth
	switch {
	case g.r.Chance(g.cfg.PTag):
		n := &Node{K: "struct", S: g.newID()}
		for i := g.r.Range(1, 4); i > 0; i-- {
			f := &Node{K: "field", S: fmt.Sprintf("F%d", i), N: []*Node{g.typ(1, -1)}}
			if g.r.Chance(0.8) {
				f.T = g.tag()
			}
			n.N = append(n.N, f)
		}
		return n
	case g.r.Chance(0.45):
		n := &Node{K: "func", S: g.newID(), B: g.stmts(d, g.r.Range(1, 4))}
		for i := g.r.Intn(3); i > 0; i-- {
			n.N = append(n.N, g.typ(1, -1))
		}
		if g.r.Chance(g.cfg.BlockFunc) {
			n.I = 1
		}
		return n
	case g.r.Chance(0.3):
		return &Node{K: "var", S: g.newID(), N: []*Node{g.dict(d, -1)}}
	}
	return &Node{K: "var", S: g.newID(), N: []*Node{g.expr(d, -1)}}
}

// fragment generates a standalone statement or expression to render with a File.
func (g *Gen) fragment() *Node {
	switch g.r.Intn(4) {
	case 0:
		return g.expr(g.cfg.Depth, -1)
	case 1:
		return g.stmt(g.cfg.Depth)
	case 2:
		return g.decl()
	}
	return &Node{K: "call", N: []*Node{g.qual(-1), g.expr(1, -1)}}
}

var aliasPool = []string{"d", "x", "fmt", "if", "int", "err", "_x", "D", "π", "a1", "d1", "rand", "template", "len", "any", "pkg_d", "go"}

func (g *Gen) alias() string {
	if g.r.Chance(0.3) && len(g.paths) > 0 {
		return g.paths[g.r.Intn(len(g.paths))].Name
	}
	return g.r.Pick(aliasPool)
}

func baseCfg(r *RNG) GenCfg {
	return GenCfg{
		NPaths: r.Range(1, 6), NStd: 0, Depth: r.Range(1, 3),
		PQual: []float64{0.2, 0.4, 0.7}[r.Intn(3)], PDict: []float64{0, 0.1, 0.3}[r.Intn(3)],
		PTag: []float64{0, 0.15, 0.3}[r.Intn(3)], PSwitch: []float64{0, 0.15, 0.35}[r.Intn(3)],
		DictMax: r.Range(2, 8), KeyQualMode: 1, EqualKeys: 0, NullSides: []float64{0, 0.1, 0.25}[r.Intn(3)],
		CaseOdd: []float64{0, 0.2, 0.5}[r.Intn(3)], Bad: 0, BlockFunc: []float64{0, 0.2, 0.5}[r.Intn(3)],
		DeclaredOdd: []float64{0, 0.25}[r.Intn(2)],
	}
}

func dupKey(d *Node, k *Node) bool {
	s := nodeSig(k)
	if s == "" {
		return false
	}
	for _, kv := range d.KV {
		if nodeSig(kv[0]) == s {
			return true
		}
	}
	return false
}
