package main

import (
	"encoding/json"
	"fmt"
	"go/ast"
	"go/parser"
	"go/token"
	"regexp"
	"sort"
	"strconv"
	"strings"
)

// C16 — Values(Dict{...}) renders every non-null pair exactly once, in key order.
// Every value carries a unique marker M_<n>(...) so each parsed pair is attributable
// to one model pair; keys are compared by their multiset of atoms (identifiers and
// literals), which is independent of the alias jennifer picks for a package.

type propC16 struct{}

func init() { register(propC16{}) }

func (propC16) ID() string    { return "C16" }
func (propC16) Level() string { return "exploration" }
func (propC16) Rule() string {
	return "a case = one seeded File with 1..4 Dicts (0..8 pairs, thorough 0..16; keys: literals, identifiers forming prefix chains, calls, qualified identifiers, composite literals, equal-text clones, null sides; contexts: map literal, struct literal, slice of structs, nested in values and keys, DictFunc) rendered formatted and NoFormat under K seeded iteration orders of every map range; distinct = distinct (Dict shapes, applied permutations) digest; non-trivial = some Dict with >=2 live pairs was rendered under a non-identity order"
}
func (propC16) Runs(tier string) int {
	if tier == "thorough" {
		return 1000000
	}
	return 60000
}

type c16gen struct {
	*Gen
	uniq    int
	marker  int
	maxPair int
	equal   float64
	late    bool // some values are placeholders filled between two renders
	slot    int
	fills   []Op
}

var prefixChain = []string{"K", "Ka", "Kab", "Kabc", "K_", "K0", "K1", "KA", "Kb", "K_a"}

func (g *c16gen) u() int { g.uniq++; return g.uniq }

func (g *c16gen) key(depth int, used map[string]bool) *Node {
	switch g.r.Intn(10) {
	case 0:
		return &Node{K: "str", S: fmt.Sprintf("k%d", g.u())}
	case 1:
		return &Node{K: "int", I: 1000 + g.u()}
	case 2, 3:
		for tries := 0; tries < 6; tries++ {
			id := g.r.Pick(prefixChain)
			if !used[id] {
				used[id] = true
				return &Node{K: "id", S: id}
			}
		}
		return &Node{K: "id", S: fmt.Sprintf("K%d", 100+g.u())}
	case 4:
		return &Node{K: "call", N: []*Node{{K: "id", S: g.id()}, {K: "id", S: fmt.Sprintf("K%d", 100+g.u())}}}
	case 5, 6:
		if len(g.paths) > 0 {
			q := g.qual(-1)
			if g.r.Chance(0.4) {
				return &Node{K: "call", N: []*Node{q, {K: "int", I: 1000 + g.u()}}}
			}
			return q
		}
		return &Node{K: "str", S: fmt.Sprintf("k%d", g.u())}
	case 7:
		return &Node{K: "sel", S: fmt.Sprintf("F%d", g.u()), N: []*Node{{K: "id", S: g.id()}}}
	case 8:
		if depth > 0 {
			return &Node{K: "slice", N: []*Node{{K: "t_int"}, {K: "int", I: 1000 + g.u()}, g.leafU()}}
		}
	case 9:
		if depth > 0 && g.r.Chance(0.5) {
			return g.dict16(depth-1, 0)
		}
		return &Node{K: "bin", S: g.r.Pick([]string{"+", "*", "-"}), N: []*Node{g.leafU(), {K: "id", S: fmt.Sprintf("K%d", 100+g.u())}}}
	}
	return &Node{K: "str", S: fmt.Sprintf("k%d", g.u())}
}

func (g *c16gen) leafU() *Node {
	if len(g.paths) > 0 && g.r.Chance(0.4) {
		return g.qual(-1)
	}
	return &Node{K: "int", I: 1000 + g.u()}
}

func (g *c16gen) value(depth int) *Node {
	g.marker++
	m := g.marker
	var inner *Node
	switch {
	case depth > 0 && g.r.Chance(0.25):
		inner = g.dict16(depth-1, 0)
	case g.r.Chance(0.5):
		inner = g.leafU()
	default:
		inner = g.expr(1, -2)
	}
	return &Node{K: "call", N: []*Node{{K: "id", S: fmt.Sprintf("M_%d", m)}, inner}}
}

// dict16 generates one Dict. ctx: 0 map literal, 1 struct literal, 2 bare (element of a slice of structs)
func (g *c16gen) dict16(depth, ctx int) *Node {
	g.dicts++
	n := &Node{K: "dict", ID: g.dicts}
	if g.r.Chance(0.2) {
		n.K = "dictfunc"
	}
	switch ctx {
	case 0:
		n.N = []*Node{{K: "maptype", N: []*Node{{K: "t_any"}, {K: "t_any"}}}}
	case 1:
		n.N = []*Node{{K: "id", S: "T" + g.id()}}
	default:
		n.N = []*Node{{K: "null"}}
	}
	pairs := g.r.Range(0, g.maxPair)
	switch g.r.Intn(5) {
	case 0:
		pairs = g.r.Range(0, 2)
	case 1:
		pairs = g.r.Range(2, 3)
	}
	used := map[string]bool{}
	for i := 0; i < pairs; i++ {
		var k *Node
		if i > 0 && g.r.Chance(g.equal) {
			k = cloneNode(n.KV[g.r.Intn(len(n.KV))][0])
			hasDict := false
			k.walk(func(x *Node) { hasDict = hasDict || isDict(x) })
			if hasDict { // a cloned nested Dict would duplicate its value markers
				k = g.key(0, used)
			}
		} else if ctx != 0 && g.r.Chance(0.7) {
			k = &Node{K: "id", S: fmt.Sprintf("F%d", g.u())}
		} else {
			k = g.key(depth, used)
		}
		v := g.value(depth)
		if i > 0 && g.equal > 0 && g.r.Chance(g.equal*0.5) {
			// a second pair that renders exactly like an earlier one, key and value
			src := n.KV[g.r.Intn(len(n.KV))]
			hasDict := false
			src[0].walk(func(x *Node) { hasDict = hasDict || isDict(x) })
			src[1].walk(func(x *Node) { hasDict = hasDict || isDict(x) || x.K == "placeholder" })
			if !hasDict && !isNullKind(src[0]) && !isNullKind(src[1]) {
				n.KV = append(n.KV, [2]*Node{cloneNode(src[0]), cloneNode(src[1])})
				continue
			}
		}
		if g.r.Chance(g.cfg.NullSides) {
			v = &Node{K: g.r.Pick([]string{"null", "emptystmt", "emptytag"})}
		} else if g.late && g.r.Chance(0.3) {
			// a value that is still empty at the first render and filled in afterwards
			g.slot++
			g.fills = append(g.fills, Op{K: "fill", I: g.slot, Node: v})
			v = &Node{K: "placeholder", I: g.slot}
		}
		if g.r.Chance(g.cfg.NullSides / 2) {
			k = &Node{K: g.r.Pick([]string{"null", "emptystmt"})}
		}
		n.KV = append(n.KV, [2]*Node{k, v})
	}
	return n
}

func (propC16) Gen(seed uint64, tier string) *Case {
	r := NewRNG(seed)
	cfg := baseCfg(r)
	cfg.PDict = 0
	cfg.NPaths = r.Range(0, 5)
	cfg.NStd = r.Intn(2)
	if cfg.NStd > cfg.NPaths {
		cfg.NStd = cfg.NPaths
	}
	cfg.NullSides = []float64{0, 0.15, 0.35}[r.Intn(3)]
	g := &c16gen{Gen: &Gen{r: r, cfg: cfg}}
	g.maxPair = 8
	if tier == "thorough" {
		g.maxPair = 16
	}
	if r.Chance(0.3) {
		g.equal = []float64{0.15, 0.4}[r.Intn(2)]
	}
	g.late = r.Chance(0.2)
	g.universe()
	rec := &Recipe{Paths: g.paths, File: FileSpec{Ctor: "name", Name: "main"}}
	if len(g.paths) > 0 && r.Chance(0.3) {
		rec.Ops = append(rec.Ops, Op{K: "prefix", S: "p"})
	}
	if len(g.paths) > 0 && r.Chance(0.3) {
		rec.Ops = append(rec.Ops, Op{K: "hint_alias", P: []int{r.Intn(len(g.paths))}, S: g.alias()})
	}
	nd := r.Range(1, 3)
	for i := 0; i < nd; i++ {
		var decl *Node
		switch r.Intn(5) {
		case 0, 1:
			decl = &Node{K: "var", S: g.newID(), N: []*Node{g.dict16(cfg.Depth, r.Intn(2))}}
		case 2: // slice of structs
			sl := &Node{K: "slice", N: []*Node{{K: "id", S: "T" + g.id()}}}
			for j := r.Range(1, 3); j > 0; j-- {
				sl.N = append(sl.N, g.dict16(cfg.Depth-1, 2))
			}
			decl = &Node{K: "var", S: g.newID(), N: []*Node{sl}}
		case 3: // inside a function body, as call argument
			decl = &Node{K: "func", S: g.newID(), B: []*Node{
				{K: "expr", N: []*Node{{K: "call", N: []*Node{{K: "id", S: g.id()}, g.dict16(cfg.Depth, r.Intn(2))}}}},
				{K: "ret", N: []*Node{g.dict16(1, 0)}},
			}}
		default:
			decl = &Node{K: "var", S: g.newID(), N: []*Node{{K: "list", N: []*Node{g.dict16(cfg.Depth, 0), g.dict16(1, 1)}}}}
		}
		rec.Ops = append(rec.Ops, Op{K: "add", Node: decl})
	}
	rec.Ops = append(rec.Ops, Op{K: "render"})
	if len(g.fills) > 0 {
		// outer values first: a placeholder nested in a filled value only exists once that value is built
		for i := len(g.fills) - 1; i >= 0; i-- {
			rec.Ops = append(rec.Ops, g.fills[i])
		}
		rec.Ops = append(rec.Ops, Op{K: "render"})
	}
	c := &Case{Property: "C16", Seed: seed, Tier: tier, Recipe: rec}
	c.Cfg, _ = json.Marshal(map[string]interface{}{"gen": cfg, "equal": g.equal, "max_pairs": g.maxPair})
	k := 3
	if tier == "thorough" {
		k = 6
	}
	c.Execs = append(c.Execs, ExecSpec{Mode: "identity"}, ExecSpec{Mode: "reverse"})
	for i := 2; i < k; i++ {
		c.Execs = append(c.Execs, ExecSpec{Mode: "shuffle", Seed: Mix(seed, uint64(i))})
	}
	return c
}

// ---- model -----------------------------------------------------------------

var markerRe = regexp.MustCompile(`^M_(\d+)$`)
var symRe = regexp.MustCompile(`^S\d+_\d+$`)

// nodeAtoms is the sorted multiset of identifiers and literals a node renders.
func nodeAtoms(n *Node, out *[]string) {
	if isNullKind(n) {
		return
	}
	switch n.K {
	case "id":
		*out = append(*out, n.S)
	case "int":
		*out = append(*out, strconv.Itoa(n.I))
	case "str":
		*out = append(*out, strconv.Quote(n.S))
	case "qual":
		*out = append(*out, n.S)
	case "sel":
		*out = append(*out, n.S)
	case "t_int":
		*out = append(*out, "int")
	case "t_string":
		*out = append(*out, "string")
	}
	if isDict(n) {
		if len(n.N) > 0 {
			nodeAtoms(n.N[0], out)
		}
		for _, kv := range n.KV {
			if isNullKind(kv[0]) || isNullKind(kv[1]) {
				continue
			}
			nodeAtoms(kv[0], out)
			nodeAtoms(kv[1], out)
		}
		return
	}
	for _, c := range n.N {
		nodeAtoms(c, out)
	}
	for _, c := range n.B {
		nodeAtoms(c, out)
	}
}

func astAtoms(e ast.Node, out *[]string) {
	ast.Inspect(e, func(n ast.Node) bool {
		switch t := n.(type) {
		case *ast.SelectorExpr:
			if symRe.MatchString(t.Sel.Name) {
				*out = append(*out, t.Sel.Name) // the qualifier is jennifer's choice, not an atom
				return false
			}
		case *ast.Ident:
			*out = append(*out, t.Name)
		case *ast.BasicLit:
			if t.Kind == token.STRING {
				if s, err := strconv.Unquote(t.Value); err == nil {
					*out = append(*out, strconv.Quote(s))
					return true
				}
			}
			*out = append(*out, t.Value)
		}
		return true
	})
}

func atomKey(a []string) string {
	sort.Strings(a)
	return strings.Join(a, " ")
}

type modelPair struct {
	dict   int
	marker int
	key    string // atom key
	count  int    // how many pairs of the Dict render exactly like this one (same key, same marked value)
}

// liveDicts walks the recipe the way rendering does, skipping pairs with a null side.
func liveDicts(n *Node, f func(d *Node, pairs []modelPair)) {
	if isNullKind(n) {
		return
	}
	if isDict(n) {
		var pairs []modelPair
		for _, kv := range n.KV {
			if isNullKind(kv[0]) || isNullKind(kv[1]) {
				continue
			}
			m := -1
			if kv[1].K == "call" && len(kv[1].N) > 0 && kv[1].N[0].K == "id" {
				if sm := markerRe.FindStringSubmatch(kv[1].N[0].S); sm != nil {
					m, _ = strconv.Atoi(sm[1])
				}
			}
			var atoms []string
			nodeAtoms(kv[0], &atoms)
			mp := modelPair{dict: n.ID, marker: m, key: atomKey(atoms), count: 1}
			merged := false
			for pi := range pairs {
				if pairs[pi].marker == mp.marker && pairs[pi].key == mp.key && m >= 0 {
					pairs[pi].count++
					merged = true
				}
			}
			if !merged {
				pairs = append(pairs, mp)
			}
		}
		f(n, pairs)
		if len(n.N) > 0 {
			liveDicts(n.N[0], f)
		}
		for _, kv := range n.KV {
			if isNullKind(kv[0]) || isNullKind(kv[1]) {
				continue
			}
			liveDicts(kv[0], f)
			liveDicts(kv[1], f)
		}
		return
	}
	for _, c := range n.N {
		liveDicts(c, f)
	}
	for _, c := range n.B {
		liveDicts(c, f)
	}
}

type foundPair struct {
	lit      *ast.CompositeLit
	marker   int
	key      string
	raw      string
	line     int
	idx      int
	nElts    int
	litLines [2]int
}

func checkDictOutput(rec *Recipe, src []byte, noformat bool) *Violation {
	fset := token.NewFileSet()
	file, err := parser.ParseFile(fset, "out.go", src, 0)
	if err != nil {
		return &Violation{Rule: "C16-invalid-literal", Detail: "rendered output does not parse: " + err.Error(), Observed: trunc(string(src), 1500)}
	}
	found := map[int][]foundPair{}
	ast.Inspect(file, func(n ast.Node) bool {
		lit, ok := n.(*ast.CompositeLit)
		if !ok {
			return true
		}
		for i, e := range lit.Elts {
			kv, ok := e.(*ast.KeyValueExpr)
			if !ok {
				continue
			}
			call, ok := kv.Value.(*ast.CallExpr)
			if !ok {
				continue
			}
			id, ok := call.Fun.(*ast.Ident)
			if !ok {
				continue
			}
			sm := markerRe.FindStringSubmatch(id.Name)
			if sm == nil {
				continue
			}
			m, _ := strconv.Atoi(sm[1])
			var atoms []string
			astAtoms(kv.Key, &atoms)
			found[m] = append(found[m], foundPair{lit: lit, marker: m, key: atomKey(atoms),
				raw: string(src[fset.Position(kv.Key.Pos()).Offset:fset.Position(kv.Key.End()).Offset]), line: fset.Position(kv.Pos()).Line, idx: i, nElts: len(lit.Elts),
				litLines: [2]int{fset.Position(lit.Lbrace).Line, fset.Position(lit.Rbrace).Line}})
		}
		return true
	})
	expectedMarkers := map[int]bool{}
	var viol *Violation
	fail := func(rule, format string, a ...interface{}) {
		if viol == nil {
			viol = &Violation{Rule: rule, Detail: fmt.Sprintf(format, a...), Observed: trunc(string(src), 2500)}
		}
	}
	rec.eachRoot(func(root *Node) {
		liveDicts(root, func(d *Node, pairs []modelPair) {
			var lit *ast.CompositeLit
			var fps []foundPair
			total := 0
			for _, p := range pairs {
				expectedMarkers[p.marker] = true
				fs := found[p.marker]
				switch {
				case len(fs) < p.count:
					fail("C16-pair-lost", "Dict %d: pair with value marker M_%d (key atoms [%s]) should be rendered %d time(s), the output has it %d time(s)", d.ID, p.marker, p.key, p.count, len(fs))
					return
				case len(fs) > p.count:
					fail("C16-pair-duplicated", "Dict %d: value M_%d is rendered %d times, the Dict has it %d time(s)", d.ID, p.marker, len(fs), p.count)
					return
				}
				total += p.count
				fp := fs[0]
				for _, x := range fs {
					if x.key != p.key {
						fp = x
					}
					if x.lit != fs[0].lit {
						fail("C16-pair-misplaced", "Dict %d: pairs are spread over different composite literals", d.ID)
						return
					}
					fps = append(fps, x)
				}
				if fp.key != p.key {
					fail("C16-wrong-key", "Dict %d: value M_%d is attached to key %q (atoms [%s]); its own key has atoms [%s]", d.ID, p.marker, fp.raw, fp.key, p.key)
					return
				}
				if lit == nil {
					lit = fp.lit
				} else if lit != fp.lit {
					fail("C16-pair-misplaced", "Dict %d: pairs are spread over different composite literals", d.ID)
					return
				}
			}
			if len(fps) == 0 {
				return
			}
			if fps[0].nElts != total {
				fail("C16-extra-elements", "Dict %d: composite literal has %d elements, the Dict has %d non-null pairs", d.ID, fps[0].nElts, total)
				return
			}
			sort.Slice(fps, func(i, j int) bool { return fps[i].idx < fps[j].idx })
			if noformat {
				for i := 1; i < len(fps); i++ {
					if fps[i-1].raw > fps[i].raw {
						fail("C16-order", "Dict %d: keys are not in order of their rendered text: %q is rendered before %q", d.ID, fps[i-1].raw, fps[i].raw)
						return
					}
				}
			}
			if len(fps) == 1 {
				if noformat && !(fps[0].litLines[0] == fps[0].line && fps[0].litLines[1] >= fps[0].line) {
					fail("C16-layout", "Dict %d: a single pair is not rendered inline (brace on line %d, pair on line %d)", d.ID, fps[0].litLines[0], fps[0].line)
				}
			} else {
				for i := range fps {
					if (i > 0 && fps[i].line <= fps[i-1].line) || fps[i].line <= fps[i].litLines[0] || fps[i].line >= fps[i].litLines[1] {
						fail("C16-layout", "Dict %d: %d pairs are not rendered one per line (pair %d on line %d, braces on lines %d..%d)", d.ID, len(fps), i, fps[i].line, fps[i].litLines[0], fps[i].litLines[1])
						return
					}
				}
			}
		})
	})
	if viol != nil {
		return viol
	}
	var ms []int
	for m := range found {
		ms = append(ms, m)
	}
	sort.Ints(ms)
	for _, m := range ms {
		if !expectedMarkers[m] {
			return &Violation{Rule: "C16-null-pair-rendered", Detail: fmt.Sprintf("value M_%d belongs to a pair with a null side (or to a Dict that is not rendered) but appears in the output", m), Observed: trunc(string(src), 2500)}
		}
	}
	return nil
}

func (propC16) Check(c *Case) (*Violation, *RunInfo) {
	ri := &RunInfo{}
	var viol *Violation
	multi := false
	c.Recipe.eachRoot(func(root *Node) {
		liveDicts(root, func(d *Node, pairs []modelPair) {
			ri.count(fmt.Sprintf("dicts_live_pairs_%s", bucket(len(pairs))), 1)
			if len(pairs) >= 2 {
				multi = true
			}
			seen := map[string]bool{}
			for _, p := range pairs {
				if seen[p.key] {
					ri.count("dicts_with_equal_text_keys", 1)
					break
				}
				seen[p.key] = true
			}
			if len(pairs) < len(d.KV) {
				ri.count("dicts_with_null_sided_pairs", 1)
			}
		})
	})
	nonIdent := false
	for ei, es := range c.Execs {
		var frozen ExecSpec
		for _, nf := range []bool{false, true} {
			rec := c.Recipe
			if nf {
				rec = cloneRecipe(c.Recipe)
				rec.Ops = append([]Op{{K: "noformat", I: 1}}, rec.Ops...)
			}
			sim := es.sim()
			hist := Exec(rec, newEnv(sim))
			ri.Steps += sim.Steps
			if !nf {
				frozen = frozenSpec(sim)
				if len(sim.Log) > 0 {
					nonIdent = true
				}
				ri.count("non_identity_orders", len(sim.Log))
			}
			if len(hist) == 0 || !hist[len(hist)-1].Render {
				ri.Vacuous = true
				continue
			}
			for hi := range hist {
				last := &hist[hi]
				if !last.Render || viol != nil {
					continue
				}
				if last.Panic != "" {
					viol = &Violation{Rule: "C16-panic", Detail: "rendering a File with Dicts panicked: " + last.Panic, Exec: ei, Op: last.Op}
					continue
				}
				if !last.OK {
					if !nf {
						viol = &Violation{Rule: "C16-invalid-literal", Detail: "formatted render failed although every part is valid Go: " + trunc(last.Err, 600), Exec: ei, Op: last.Op}
					}
					continue
				}
				ri.count("renders_checked", 1)
				if v := checkDictOutput(modelAt(rec, hi), last.Out, nf); v != nil {
					v.Exec, v.Op = ei, last.Op
					if nf {
						v.Detail += " (NoFormat render)"
					}
					if hi < len(hist)-1 || hi > 0 && hasFill(rec) {
						v.Detail += fmt.Sprintf(" (render at op %d of a history with values filled in between renders)", hi)
					}
					viol = v
				}
			}
		}
		ri.Frozen = append(ri.Frozen, frozen)
	}
	ri.Nontrivial = nonIdent && multi
	var shapes []string
	c.Recipe.eachRoot(func(root *Node) {
		liveDicts(root, func(d *Node, pairs []modelPair) {
			var ks []string
			for _, p := range pairs {
				ks = append(ks, p.key)
			}
			shapes = append(shapes, strings.Join(ks, "|"))
		})
	})
	ri.Key = digest(shapes, ri.Frozen)
	ri.Inter = digest(ri.Frozen)
	return viol, ri
}

func bucket(n int) string {
	switch {
	case n == 0:
		return "0"
	case n == 1:
		return "1"
	case n <= 3:
		return "2-3"
	case n <= 8:
		return "4-8"
	}
	return "9+"
}

// Valid keeps minimisation inside the oracle's assumptions: unique markers, every
// non-null Dict value marked.
func (propC16) Valid(c *Case) bool {
	ok := true
	seen := map[string]bool{}
	for _, op := range c.Recipe.Ops {
		if op.K == "fill" && !(op.Node != nil && op.Node.K == "call" && len(op.Node.N) > 0 && op.Node.N[0].K == "id" && markerRe.MatchString(op.Node.N[0].S)) {
			return false
		}
	}
	_ = seen
	where := map[string]string{} // marker -> "dict id | key sig | value sig" of the pair that owns it
	c.Recipe.walk(func(n *Node) {
		if isDict(n) {
			for _, kv := range n.KV {
				if isNullKind(kv[1]) {
					continue
				}
				if !(kv[1].K == "call" && len(kv[1].N) > 0 && kv[1].N[0].K == "id" && markerRe.MatchString(kv[1].N[0].S)) {
					ok = false
					continue
				}
				m := kv[1].N[0].S
				sig := fmt.Sprintf("%d|%s|%s", n.ID, nodeSig(kv[0]), nodeSig(kv[1]))
				if old, dup := where[m]; dup && old != sig {
					ok = false // one marker on two pairs that do not render identically
				}
				where[m] = sig
			}
		}
	})
	return ok
}

func hasFill(rec *Recipe) bool {
	for _, op := range rec.Ops {
		if op.K == "fill" {
			return true
		}
	}
	return false
}

// modelAt is the recipe as the library sees it after op i: placeholders that have been
// filled by then stand for their content, the others are still empty (null).
func modelAt(rec *Recipe, i int) *Recipe {
	if !hasFill(rec) {
		return rec
	}
	m := cloneRecipe(rec)
	filled := map[int]*Node{}
	for j := 0; j <= i && j < len(m.Ops); j++ {
		if m.Ops[j].K == "fill" {
			filled[m.Ops[j].I] = m.Ops[j].Node
		}
	}
	m.walk(func(n *Node) {
		for pi := range n.KV {
			if v := n.KV[pi][1]; v != nil && v.K == "placeholder" {
				if f, ok := filled[v.I]; ok {
					n.KV[pi][1] = f
				}
			}
		}
	})
	// fill ops carry their own copy of the value nodes: they are not part of the tree
	for j := range m.Ops {
		if m.Ops[j].K == "fill" {
			m.Ops[j].Node = nil
		}
	}
	return m
}
