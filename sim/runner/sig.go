package main

import (
	"fmt"
	"sort"
	"strings"
)

func isNullKind(n *Node) bool {
	return n == nil || n.K == "null" || n.K == "emptystmt" || n.K == "emptytag" || n.K == "nil" || n.K == "placeholder"
}

// nodeSig is a canonical text of a node such that two nodes with different
// signatures render to different text (nulls skipped, Dict pairs sorted).
func nodeSig(n *Node) string {
	if isNullKind(n) {
		return ""
	}
	var sb strings.Builder
	kind := n.K
	if kind == "dictfunc" {
		kind = "dict"
	}
	fmt.Fprintf(&sb, "%s(%q,%d", kind, n.S, n.I)
	for _, c := range n.N {
		if s := nodeSig(c); s != "" {
			sb.WriteString("," + s)
		}
	}
	if len(n.B) > 0 {
		sb.WriteString(";B")
		for _, c := range n.B {
			sb.WriteString("," + nodeSig(c))
		}
	}
	if len(n.KV) > 0 {
		var ps []string
		for _, kv := range n.KV {
			k, v := nodeSig(kv[0]), nodeSig(kv[1])
			if k != "" && v != "" {
				ps = append(ps, k+"=>"+v)
			}
		}
		sort.Strings(ps)
		if len(ps) > 0 {
			sb.WriteString(";KV" + strings.Join(ps, "|"))
		}
	}
	for _, t := range n.T {
		fmt.Fprintf(&sb, ";T%q=%q", t[0], t[1])
	}
	sb.WriteString(")")
	return sb.String()
}

func isDict(n *Node) bool { return n != nil && (n.K == "dict" || n.K == "dictfunc") }

// keySideQuals lists the qual nodes on the key side of d (at any depth below its keys).
func keySideQuals(d *Node) []*Node {
	var out []*Node
	for _, kv := range d.KV {
		kv[0].walk(func(n *Node) {
			if n.K == "qual" {
				out = append(out, n)
			}
		})
	}
	return out
}

// outermostDicts calls f for every Dict that is not on the key side of another Dict.
func outermostDicts(n *Node, f func(*Node)) {
	if n == nil {
		return
	}
	if isDict(n) {
		f(n)
		for _, c := range n.N {
			outermostDicts(c, f)
		}
		for _, kv := range n.KV {
			outermostDicts(kv[1], f) // values only; key side belongs to this Dict
		}
		return
	}
	for _, c := range n.N {
		outermostDicts(c, f)
	}
	for _, c := range n.B {
		outermostDicts(c, f)
	}
}

func (r *Recipe) eachRoot(f func(*Node)) {
	for _, op := range r.Ops {
		if op.Node != nil {
			f(op.Node)
		}
	}
	for _, fr := range r.Frags {
		f(fr)
	}
}

// neutraliseKeyRegistration removes the trigger of the known finding "imports first
// referenced in Dict keys are registered in map-iteration order": below each
// outermost Dict, all key-side qualified identifiers are pointed at one path.
func neutraliseKeyRegistration(c *Case) (*Case, bool) {
	if c.Recipe == nil {
		return c, false
	}
	nr := cloneRecipe(c.Recipe)
	changed := false
	nr.eachRoot(func(root *Node) {
		outermostDicts(root, func(d *Node) {
			qs := keySideQuals(d)
			for _, q := range qs {
				if q.I != qs[0].I {
					q.I = qs[0].I
					changed = true
				}
			}
		})
	})
	return withRecipe(c, nr), changed
}

// neutraliseEqualKeys removes the trigger of the known finding "keys of one Dict
// with equal rendered text are ordered by map iteration": later duplicates get a
// unique suffix.
func neutraliseEqualKeys(c *Case) (*Case, bool) {
	if c.Recipe == nil {
		return c, false
	}
	nr := cloneRecipe(c.Recipe)
	changed := false
	uniq := 7000
	nr.walk(func(n *Node) {
		if !isDict(n) {
			return
		}
		seen := map[string]bool{}
		markers := map[string]bool{}
		for i := range n.KV {
			s := nodeSig(n.KV[i][0])
			if s == "" {
				continue
			}
			if seen[s] {
				uniq++
				n.KV[i][0] = &Node{K: "bin", S: "+", N: []*Node{n.KV[i][0], {K: "int", I: uniq}}}
				changed = true
			}
			seen[s] = true
			// C16's value markers: a pair that was an exact copy of another one (same marker) is a
			// pair of its own once its key is distinct
			if v := n.KV[i][1]; v != nil && v.K == "call" && len(v.N) > 0 && v.N[0].K == "id" && strings.HasPrefix(v.N[0].S, "M_") {
				if markers[v.N[0].S] {
					uniq++
					v.N[0] = &Node{K: "id", S: fmt.Sprintf("M_%d", 900000+uniq)}
					changed = true
				}
				markers[v.N[0].S] = true
			}
		}
	})
	return withRecipe(c, nr), changed
}

func init() {
	neutralisers["dict-key-registration-order"] = neutraliseKeyRegistration
	neutralisers["dict-equal-text-key-order"] = neutraliseEqualKeys
}

// neutraliseAliasC removes the trigger of the known finding "a package aliased C
// next to the cgo pseudo-package": the user-supplied alias is renamed.
func neutraliseAliasC(c *Case) (*Case, bool) {
	if c.Recipe == nil {
		return c, false
	}
	nr := cloneRecipe(c.Recipe)
	changed := false
	for i := range nr.Ops {
		if nr.Ops[i].K == "hint_alias" && nr.Ops[i].S == "C" {
			nr.Ops[i].S = "Cx"
			changed = true
		}
	}
	return withRecipe(c, nr), changed
}

func init() { neutralisers["alias-named-C-next-to-cgo"] = neutraliseAliasC }
