package main

import (
	"encoding/json"
	"fmt"
	"go/ast"
	"go/parser"
	"go/token"
	"go/types"
	"sort"
	"strings"
)

// C03 — every qualified identifier resolves to the package it was built with.
// Histories of hint/Anon/prefix/add/render calls on one File, over a universe of
// colliding import paths, under simulator-chosen map iteration order. The oracle
// reads every successfully rendered File: import block bindings (alias, or the
// package's real declared name when no alias is written) versus the qualifier in
// front of each workload symbol.

type propC03 struct{}

func init() { register(propC03{}) }

func (propC03) ID() string    { return "C03" }
func (propC03) Level() string { return "exploration" }
func (propC03) Rule() string {
	return "a case = one seeded history config-ops* (add | render | late-config)* on one File over 2..8 (thorough ..24) import paths with colliding base names, keywords, digits, unicode, std pairs, declared names that differ from the last path element; hints are truthful, aliases arbitrary identifiers; every map range iterates in a seeded order; distinct = distinct sequence of import-table digests; non-trivial = at least one rendered File in which some import needed an alias that is not its guessed name (a collision was resolved) or two paths share a base name"
}
func (propC03) Runs(tier string) int {
	if tier == "thorough" {
		return 3000000
	}
	return 50000
}

func (propC03) Gen(seed uint64, tier string) *Case {
	r := NewRNG(seed)
	cfg := baseCfg(r)
	cfg.NPaths = r.Range(2, 8)
	if tier == "thorough" && r.Chance(0.3) {
		cfg.NPaths = r.Range(8, 24)
	}
	cfg.NStd = r.Intn(min(4, cfg.NPaths))
	cfg.PQual = []float64{0.5, 0.8}[r.Intn(2)]
	cfg.DeclaredOdd = []float64{0, 0.3, 0.6}[r.Intn(3)]
	cfg.CaseOdd = 0
	if r.Chance(0.25) {
		cfg.KeyQualMode = 2
	}
	g := &Gen{r: r, cfg: cfg}
	g.universe()
	if r.Chance(0.08) {
		g.paths = append(g.paths, PathSpec{Path: "C", Name: "C"}) // the cgo pseudo-package, referenced like any other
	}
	rec := &Recipe{Paths: g.paths}
	rec.File = genFileSpec(g, r, true)
	if rec.File.Path == "C" {
		rec.File = FileSpec{Ctor: "name", Name: "main"}
	}
	if r.Chance(0.12) {
		rec.Ops = append(rec.Ops, Op{K: "cgo", S: "#include <stdio.h>"})
	}
	np := len(g.paths)
	cfgOp := func() Op {
		switch r.Intn(7) {
		case 0, 1:
			return Op{K: "hint_name", P: []int{r.Intn(np)}}
		case 2:
			var ps []int
			for j := r.Range(1, np); j > 0; j-- {
				ps = append(ps, r.Intn(np))
			}
			return Op{K: "hint_names", P: ps}
		case 3, 4:
			return Op{K: "hint_alias", P: []int{r.Intn(np)}, S: g.alias()}
		case 5:
			var ps []int
			for j := r.Range(1, 2); j > 0; j-- {
				ps = append(ps, r.Intn(np))
			}
			return Op{K: "anon", P: ps}
		}
		return Op{K: "prefix", S: r.Pick([]string{"pkg", "p", "x_", ""})}
	}
	for i := r.Intn(6); i > 0; i-- {
		rec.Ops = append(rec.Ops, cfgOp())
	}
	if r.Chance(0.15) {
		rec.Ops = append(rec.Ops, Op{K: "noformat", I: 1})
	}
	// every path referenced 1..5 times somewhere: a first declaration lists some of them flat
	if r.Chance(0.6) {
		n := &Node{K: "slice", N: []*Node{{K: "t_any"}}}
		for _, p := range r.Perm(np)[:r.Range(1, np)] {
			for k := r.Range(1, 2); k > 0; k-- {
				g.sym++
				n.N = append(n.N, &Node{K: "qual", I: p, S: fmt.Sprintf("S%d_%d", p, g.sym)})
			}
		}
		rec.Ops = append(rec.Ops, Op{K: "add", Node: &Node{K: "var", S: g.newID(), N: []*Node{n}}})
	}
	for i := r.Range(1, 3); i > 0; i-- {
		rec.Ops = append(rec.Ops, Op{K: "add", Node: g.decl()})
	}
	rec.Ops = append(rec.Ops, Op{K: "render"})
	for i := r.Intn(5); i > 0; i-- {
		switch r.Intn(4) {
		case 0:
			rec.Ops = append(rec.Ops, Op{K: "add", Node: g.decl()})
		case 1:
			rec.Ops = append(rec.Ops, cfgOp())
		default:
			rec.Ops = append(rec.Ops, Op{K: "render"})
		}
	}
	if rec.Ops[len(rec.Ops)-1].K != "render" {
		rec.Ops = append(rec.Ops, Op{K: "render"})
	}
	c := &Case{Property: "C03", Seed: seed, Tier: tier, Recipe: rec}
	c.Cfg, _ = json.Marshal(cfg)
	mode := "shuffle"
	if r.Chance(0.1) {
		mode = "reverse"
	}
	c.Execs = []ExecSpec{{Mode: mode, Seed: Mix(seed, 3)}}
	return c
}

type fakeImporter struct {
	rec  *Recipe
	pkgs map[string]*types.Package
}

func (fi *fakeImporter) Import(path string) (*types.Package, error) {
	if p, ok := fi.pkgs[path]; ok {
		return p, nil
	}
	name, ok := declaredName(fi.rec, path)
	if !ok {
		return nil, fmt.Errorf("sim: package %q is not part of this run's universe", path)
	}
	p := types.NewPackage(path, name)
	p.MarkComplete()
	fi.pkgs[path] = p
	return p, nil
}

// checkResolution judges one rendered File.
func checkResolution(rec *Recipe, src []byte, formatted bool, ri *RunInfo) *Violation {
	specs, err := parseImports(src)
	if err != nil {
		ri.count("outputs_with_unparsable_imports", 1)
		// Every name the workload supplies (declared names, aliases, prefixes) is a valid
		// identifier or a reserved word jennifer renames, so an import block that does not
		// even parse binds nothing: no qualifier of the file resolves.
		if len(scanSymUses(src)) > 0 {
			return &Violation{Rule: "C03-import-block-invalid",
				Detail:   "the rendered File's import block does not parse (" + err.Error() + "), so no qualifier in the file is bound to its path",
				Observed: trunc(string(src), 1800)}
		}
		return nil
	}
	sp := symPaths(rec)
	bind := map[string]string{} // name -> path
	hasDot := map[string]bool{}
	for _, s := range specs {
		n := s.Name
		switch n {
		case "_":
			continue
		case ".":
			hasDot[s.Path] = true
			continue
		case "":
			dn, ok := declaredName(rec, s.Path)
			if !ok {
				continue
			}
			n = dn
		}
		if other, dup := bind[n]; dup && other != s.Path {
			return &Violation{Rule: "C03-duplicate-import-name",
				Detail:   fmt.Sprintf("the import block binds the name %q to both %q and %q", n, other, s.Path),
				Observed: trunc(string(src), 1800)}
		}
		bind[n] = s.Path
	}
	used := map[string]string{} // path -> qualifier
	for _, u := range scanSymUses(src) {
		path, ok := sp[u.Sym]
		if !ok || path == rec.File.Path {
			continue
		}
		if u.Qual == "" {
			if hasDot[path] {
				continue
			}
			return &Violation{Rule: "C03-unqualified", Detail: fmt.Sprintf("symbol %s of %q is rendered without a qualifier and the path is not dot-imported", u.Sym, path), Observed: trunc(string(src), 1800)}
		}
		got, ok := bind[u.Qual]
		if !ok {
			return &Violation{Rule: "C03-unbound-qualifier",
				Detail:   fmt.Sprintf("%s.%s: the import block binds no package to %q (the identifier was built with path %q)", u.Qual, u.Sym, u.Qual, path),
				Observed: trunc(string(src), 1800)}
		}
		if got != path {
			return &Violation{Rule: "C03-wrong-package",
				Detail:   fmt.Sprintf("%s.%s: %q is bound to %q but the identifier was built with path %q", u.Qual, u.Sym, u.Qual, got, path),
				Observed: trunc(string(src), 1800)}
		}
		if old, ok := used[path]; ok && old != u.Qual {
			return &Violation{Rule: "C03-two-qualifiers", Detail: fmt.Sprintf("path %q is referred to as both %q and %q in one file", path, old, u.Qual), Observed: trunc(string(src), 1800)}
		}
		used[path] = u.Qual
	}
	// every import the File declares under a name must be used: an import nobody refers to
	// does not compile either ("imported and not used"), and takes a name away from a real one
	for _, s := range specs {
		if s.Name == "_" || s.Name == "." || s.Path == rec.File.Path || s.Path == "C" {
			continue
		}
		if _, ok := used[s.Path]; !ok {
			return &Violation{Rule: "C03-unused-import",
				Detail:   fmt.Sprintf("the import block declares %q, but no qualified identifier in the file was built with that path: the file does not type-check with respect to its imports", s.Path),
				Observed: trunc(string(src), 1800)}
		}
	}
	ri.count("files_resolved", 1)
	ri.count("qualified_paths_resolved", len(used))
	// probes: collisions resolved
	bases := map[string]int{}
	for _, s := range specs {
		b := strings.TrimSuffix(s.Path, "/")
		if i := strings.LastIndex(b, "/"); i >= 0 {
			b = b[i+1:]
		}
		bases[strings.ToLower(b)]++
	}
	for _, n := range bases {
		if n > 1 {
			ri.count("files_with_colliding_base_names", 1)
			ri.Nontrivial = true
			break
		}
	}
	// second opinion: go/types with fabricated packages (real scoping rules)
	if formatted {
		fset := token.NewFileSet()
		file, err := parser.ParseFile(fset, "out.go", src, 0)
		if err != nil {
			return nil
		}
		info := &types.Info{Uses: map[*ast.Ident]types.Object{}}
		var redecl []string
		conf := types.Config{Importer: &fakeImporter{rec: rec, pkgs: map[string]*types.Package{}}, FakeImportC: true,
			Error: func(e error) {
				msg := e.Error()
				if strings.Contains(msg, "redeclared") || strings.Contains(msg, "already declared") {
					if strings.Contains(msg, "import") || strings.Contains(msg, "package") {
						redecl = append(redecl, msg)
					}
				}
			}}
		func() {
			defer func() { recover() }()
			conf.Check("out", fset, []*ast.File{file}, info)
		}()
		var bad *Violation
		ast.Inspect(file, func(n ast.Node) bool {
			sel, ok := n.(*ast.SelectorExpr)
			if !ok || bad != nil {
				return bad == nil
			}
			path, ok := sp[sel.Sel.Name]
			if !ok || path == rec.File.Path {
				return true
			}
			x, ok := sel.X.(*ast.Ident)
			if !ok {
				return true
			}
			if pn, ok := info.Uses[x].(*types.PkgName); ok {
				ri.count("go_types_resolutions", 1)
				if pn.Imported().Path() != path {
					bad = &Violation{Rule: "C03-wrong-package",
						Detail:   fmt.Sprintf("go/types resolves %s.%s to package %q; the identifier was built with path %q", x.Name, sel.Sel.Name, pn.Imported().Path(), path),
						Observed: trunc(string(src), 1800)}
				}
			}
			return true
		})
		if bad != nil {
			return bad
		}
		if len(redecl) > 0 {
			sort.Strings(redecl)
			return &Violation{Rule: "C03-duplicate-import-name", Detail: "go/types: " + redecl[0], Observed: trunc(string(src), 1800)}
		}
	}
	return nil
}

func (propC03) Check(c *Case) (*Violation, *RunInfo) {
	ri := &RunInfo{}
	sim := c.Execs[0].sim()
	hist := Exec(c.Recipe, newEnv(sim))
	ri.Steps = sim.Steps
	ri.Frozen = []ExecSpec{frozenSpec(sim)}
	var viol *Violation
	reached := false
	for i := range hist {
		o := &hist[i]
		ri.States = append(ri.States, o.State)
		if !o.Render {
			continue
		}
		ri.count("renders_"+errClass(o), 1)
		if !o.OK || o.Obj != "file" {
			continue
		}
		reached = true
		if viol == nil {
			if v := checkResolution(c.Recipe, o.Out, !o.NoFormat, ri); v != nil {
				v.Op = i
				v.Detail = fmt.Sprintf("op %d (render file): %s", i, v.Detail)
				viol = v
			}
		}
	}
	ri.Vacuous = !reached
	ri.Key = digest(ri.States)
	ri.Inter = digest(ri.Frozen)
	return viol, ri
}
