package main

import (
	"bytes"
	"encoding/json"
	"fmt"
	"sort"
	"strings"
)

// C08 — rendering is repeatable and import names are stable across renders.
// One File and its fragments are driven through a seeded history of renders,
// fragment renders, additions, late hints and failing writers, with map iteration
// order changing between renders; the oracle works on the recorded history.

type propC08 struct{}

func init() { register(propC08{}) }

func (propC08) ID() string    { return "C08" }
func (propC08) Level() string { return "exploration" }
func (propC08) Rule() string {
	return "a case = one seeded history (3..14 ops, thorough ..30) over one File and 0..3 fragments: File.Render, Statement/Group.RenderWithFile and Render, f.Group.RenderWithFile, Add, late ImportName/ImportAlias (incl. \".\"), late PackagePrefix, late Anon of never-referenced paths, failing/short writers; every map range iterates in a fresh seeded order at each call; distinct = distinct (op-kind sequence, import-table digest sequence); non-trivial = some object rendered successfully at least twice"
}
func (propC08) Runs(tier string) int {
	if tier == "thorough" {
		return 3000000
	}
	return 40000
}

func (propC08) Gen(seed uint64, tier string) *Case {
	r := NewRNG(seed)
	cfg := baseCfg(r)
	cfg.NPaths = r.Range(2, 7)
	cfg.NStd = r.Intn(3)
	cfg.CaseOdd = []float64{0, 0.3, 0.6}[r.Intn(3)]
	cfg.PSwitch = []float64{0.1, 0.3, 0.5}[r.Intn(3)]
	cfg.Bad = []float64{0, 0, 0.03}[r.Intn(3)]
	if r.Chance(0.3) {
		cfg.KeyQualMode = 2 // harmless for C08: names are fixed by the first render
	}
	if r.Chance(0.05) {
		cfg.EqualKeys = 0.3 // known-finding trigger (equal-text key order follows map order)
	}
	g := &Gen{r: r, cfg: cfg, lits: true}
	g.late = r.Chance(0.2)
	g.universe()
	rec := &Recipe{Paths: g.paths}
	rec.File = genFileSpec(g, r, true)
	np := len(g.paths)
	// referenced[p]: some qualified identifier of p exists in a declaration added so far or in
	// any fragment. Anon is only ever issued on paths not referenced yet ("excluding Anon on
	// an already referenced path"); they may well be referenced later.
	referenced := map[int]bool{}
	mark := func(n *Node) {
		n.walk(func(x *Node) {
			if x.K == "qual" {
				referenced[((x.I%np)+np)%np] = true
			}
		})
	}
	for i := r.Intn(4); i > 0; i-- {
		rec.Frags = append(rec.Frags, g.fragment())
	}
	for _, fr := range rec.Frags {
		mark(fr)
	}
	anonOp := func() (Op, bool) {
		var free []int
		for p := 0; p < np; p++ {
			if !referenced[p] && g.paths[p].Path != rec.File.Path {
				free = append(free, p)
			}
		}
		if len(free) == 0 {
			return Op{}, false
		}
		return Op{K: "anon", P: []int{free[r.Intn(len(free))]}}, true
	}
	for _, op := range genConfigOps(g, r, true) {
		if op.K == "anon" {
			if a, ok := anonOp(); ok {
				rec.Ops = append(rec.Ops, a)
			}
			continue
		}
		rec.Ops = append(rec.Ops, op)
	}
	if r.Chance(0.3) {
		if a, ok := anonOp(); ok {
			rec.Ops = append(rec.Ops, a)
		}
	}
	var fileSlots []int // placeholders that live in declarations added to the File itself
	addDecl := func() {
		d := g.decl()
		if g.late && r.Chance(0.4) {
			// a declaration whose call / list has a LEADING item that is still empty (renders
			// nothing) and gets its content later: var V = f(<empty>, x)  /  []T{<empty>, x}
			slot := 1000 + len(g.slots)
			g.slots = append(g.slots, slot)
			fileSlots = append(fileSlots, slot)
			ph := &Node{K: "placeholder", I: slot}
			switch r.Intn(3) {
			case 0:
				d = &Node{K: "var", S: g.newID(), N: []*Node{{K: "call", N: []*Node{{K: "id", S: g.id()}, ph, g.expr(1, -1)}}}}
			case 1:
				// a List has no delimiters of its own: while all its items are empty it renders nothing at all
				d = &Node{K: "func", S: g.newID(), B: []*Node{{K: "ret", N: []*Node{{K: "list", N: []*Node{ph}}}}}}
			default:
				d = &Node{K: "var", S: g.newID(), N: []*Node{{K: "slice", N: []*Node{{K: "t_any"}, ph, g.expr(1, -1)}}}}
			}
		}
		mark(d)
		rec.Ops = append(rec.Ops, Op{K: "add", Node: d})
	}
	for i := r.Range(1, 3); i > 0; i-- {
		addDecl()
	}
	n := r.Range(3, 14)
	if tier == "thorough" && r.Chance(0.3) {
		n = r.Range(10, 30)
	}
	wplan := func() *WriterPlan {
		if r.Chance(0.12) {
			return &WriterPlan{FailAt: r.Range(1, 2), Kind: r.Pick([]string{"err", "short"})}
		}
		return nil
	}
	for i := 0; i < n; i++ {
		x := r.Intn(100)
		switch {
		case x < 4:
			rec.Ops = append(rec.Ops, Op{K: "gostring"})
		case x < 36:
			rec.Ops = append(rec.Ops, Op{K: "render", W: wplan()})
		case x < 54 && len(rec.Frags) > 0:
			rec.Ops = append(rec.Ops, Op{K: "render_frag", I: r.Intn(len(rec.Frags)), W: wplan()})
		case x < 58 && len(rec.Frags) > 0:
			rec.Ops = append(rec.Ops, Op{K: "render_frag_nofile", I: r.Intn(len(rec.Frags)), W: wplan()})
		case x < 65:
			rec.Ops = append(rec.Ops, Op{K: "render_group", I: r.Intn(5), W: wplan()})
		case x < 67:
			rec.Ops = append(rec.Ops, Op{K: "render_group_nofile", I: r.Intn(5)})
		case x < 71:
			rec.Ops = append(rec.Ops, Op{K: "render_body", W: wplan()})
		case x < 79:
			addDecl()
		case x < 81 && len(fileSlots) > 0:
			// an argument that was empty so far gets its content
			slot := fileSlots[0]
			fileSlots = fileSlots[1:]
			rec.Ops = append(rec.Ops, Op{K: "fill", I: slot, Node: &Node{K: "id", S: g.newID()}})
		case x < 82:
			st := g.stmt(1)
			mark(st)
			rec.Ops = append(rec.Ops, Op{K: "add_to_group", I: r.Intn(5), Node: st})
		case x < 85 && len(rec.Frags) > 0:
			rec.Ops = append(rec.Ops, Op{K: "addfrag", I: r.Intn(len(rec.Frags))})
		case x < 89:
			rec.Ops = append(rec.Ops, Op{K: "hint_name", P: []int{r.Intn(np)}})
		case x < 94:
			a := g.alias()
			if r.Chance(0.35) {
				a = "."
			}
			rec.Ops = append(rec.Ops, Op{K: "hint_alias", P: []int{r.Intn(np)}, S: a})
		case x < 96:
			rec.Ops = append(rec.Ops, Op{K: "prefix", S: r.Pick([]string{"pkg", "q", ""})})
		case x < 99:
			if a, ok := anonOp(); ok {
				rec.Ops = append(rec.Ops, a)
			}
		default:
			rec.Ops = append(rec.Ops, Op{K: "render", W: wplan()})
		}
	}
	if r.Chance(0.02) {
		// failure burst: many failing renders, after which repeatability must still hold
		rec.Frags = append(rec.Frags, &Node{K: "bad"})
		for i := r.Range(9, 16); i > 0; i-- {
			rec.Ops = append(rec.Ops, Op{K: r.Pick([]string{"render_frag", "render_frag_nofile"}), I: len(rec.Frags) - 1})
		}
		rec.Ops = append(rec.Ops, Op{K: "render"}, Op{K: "render"})
	}
	c := &Case{Property: "C08", Seed: seed, Tier: tier, Recipe: rec}
	c.Cfg, _ = json.Marshal(cfg)
	mode := "shuffle"
	if r.Chance(0.1) {
		mode = "identity"
	}
	c.Execs = []ExecSpec{{Mode: mode, Seed: Mix(seed, 77)}}
	return c
}

func stateChanging(k string) bool {
	switch k {
	case "add", "add_to_group", "addfrag", "addfrag_chain", "line", "line_comment", "fill", "cgo", "hint_name", "hint_names", "hint_names_shared", "hint_names_alt", "hint_alias", "anon", "prefix", "noformat", "pkgcomment", "header", "canonical":
		return true
	}
	return false
}

func usesFile(obj string) bool { return !strings.HasSuffix(obj, ":nofile") }

// checkHistoryC08 judges a recorded history.
func checkHistoryC08(rec *Recipe, hist []Outcome, ri *RunInfo) *Violation {
	type lastRender struct {
		o     *Outcome
		stamp int
	}
	last := map[string]lastRender{} // per object: last complete render attempt (no writer fault)
	fresh := map[string]bool{}      // object not rendered since the last state-changing op
	disturb := 0                    // counts events after which a File-dependent render may legitimately change
	sp := symPaths(rec)
	expectIdents := map[string]int{} // identifiers every later File render must contain -> op that added them
	names := map[string]string{}   // path -> name it first appeared under
	nameOp := map[string]int{}
	for i := range hist {
		o := &hist[i]
		if !o.Render {
			// R4 bookkeeping: what an addition obliges later File renders to show
			if o.OK && o.Panic == "" && i < len(rec.Ops) {
				op := rec.Ops[i]
				switch {
				case o.Kind == "add" && op.Node != nil && (op.Node.K == "var" || op.Node.K == "func" || op.Node.K == "struct"):
					expectIdents[op.Node.S] = i
				case o.Kind == "fill" && op.Node != nil && op.Node.K == "id" && op.I >= 1000:
					expectIdents[op.Node.S] = i
				case o.Kind == "add_to_group" && o.Obj == "filegroup" && op.Node != nil:
					if op.Node.K == "define" {
						expectIdents[op.Node.S] = i
					}
				}
			}
			if stateChanging(o.Kind) {
				disturb++
				fresh = map[string]bool{}
				for k := range last {
					fresh[k] = true
				}
				last = map[string]lastRender{}
			}
			continue
		}
		obj := o.Obj
		isFresh, seen := fresh[obj]
		if !seen {
			isFresh = true
		}
		fresh[obj] = false
		if isFresh && usesFile(obj) {
			disturb++ // a first render since the last change may register new paths
		}
		if o.Fired {
			ri.count("writer_faults_fired", 1)
			if o.OK {
				return &Violation{Rule: "C08-R3-fault-swallowed", Op: i, Detail: fmt.Sprintf("op %d (%s %s): the writer returned an error but the render reported success", i, o.Kind, obj)}
			}
			continue // a failed write is not compared; it must not change anything (checked by the next clean render)
		}
		// R1: repeatability
		if prev, ok := last[obj]; ok && (prev.stamp == disturb || !usesFile(obj)) {
			ri.count("R1_comparisons", 1)
			if prev.o.class() != o.class() {
				return &Violation{Rule: "C08-R1-outcome-changed", Op: i,
					Detail:   fmt.Sprintf("op %d (%s %s): the same object rendered with the same File ended %q at op %d and %q now, with nothing in between that could change it", i, o.Kind, obj, prev.o.class(), prev.o.Op, o.class()),
					Expected: prev.o.class() + " " + trunc(prev.o.Err+prev.o.Panic, 300), Observed: o.class() + " " + trunc(o.Err+o.Panic, 300)}
			}
			if o.OK && !bytes.Equal(prev.o.Out, o.Out) {
				return &Violation{Rule: "C08-R1-bytes-changed", Op: i,
					Detail:   fmt.Sprintf("op %d (%s %s): rendering again produced different bytes than at op %d; %s", i, o.Kind, obj, prev.o.Op, firstDiff(prev.o.Out, o.Out)),
					Expected: trunc(string(prev.o.Out), 1500), Observed: trunc(string(o.Out), 1500)}
			}
			if o.OK {
				ri.count("R1_identical_rerenders", 1)
			}
		}
		last[obj] = lastRender{o, disturb}
		if !o.OK || !usesFile(obj) {
			continue
		}
		// R2: name stability
		uses := scanSymUses(o.Out)
		for _, u := range uses {
			path, ok := sp[u.Sym]
			if !ok {
				continue
			}
			name := u.Qual
			if name == "" {
				name = "."
			}
			if old, ok := names[path]; ok {
				if old != name {
					return &Violation{Rule: "C08-R2-name-changed", Op: i,
						Detail:   fmt.Sprintf("op %d (%s %s): path %q first appeared as %q (op %d) and is now referred to as %q (symbol %s)", i, o.Kind, obj, path, old, nameOp[path], name, u.Sym),
						Expected: old, Observed: trunc(string(o.Out), 1500)}
				}
			} else {
				names[path] = name
				nameOp[path] = i
			}
		}
		if obj == "file" && len(expectIdents) > 0 {
			have := map[string]bool{}
			for _, t := range scanTokens(o.Out) {
				have[t] = true
			}
			var missing []string
			for id := range expectIdents {
				if !have[id] {
					missing = append(missing, id)
				}
			}
			if len(missing) > 0 {
				sort.Strings(missing)
				return &Violation{Rule: "C08-R4-addition-not-rendered", Op: i,
					Detail:   fmt.Sprintf("op %d (render file): %s was added to the File at op %d, after an earlier render, but this render does not contain it", i, missing[0], expectIdents[missing[0]]),
					Observed: trunc(string(o.Out), 1500)}
			}
			ri.count("R4_additions_seen", len(expectIdents))
		}
		if obj == "file" {
			specs, err := parseImports(o.Out)
			if err != nil {
				ri.count("file_outputs_with_unparsable_imports", 1)
				continue
			}
			bound := map[string]string{}
			for _, s := range specs {
				n := s.Name
				if n == "" {
					n, _ = declaredName(rec, s.Path)
				}
				if old, dup := bound[s.Path]; dup && old != n {
					n = old + "|" + n
				}
				bound[s.Path] = n
			}
			var paths []string
			for p := range names {
				paths = append(paths, p)
			}
			sort.Strings(paths)
			for _, p := range paths {
				if p == rec.File.Path {
					continue // local package: never imported
				}
				b, ok := bound[p]
				if !ok {
					return &Violation{Rule: "C08-R2-import-missing", Op: i,
						Detail:   fmt.Sprintf("op %d (render file): path %q appeared as %q in an output produced with this File (op %d) but the import block does not declare it", i, p, names[p], nameOp[p]),
						Observed: trunc(string(o.Out), 1500)}
				}
				if b != names[p] {
					return &Violation{Rule: "C08-R2-import-mismatch", Op: i,
						Detail:   fmt.Sprintf("op %d (render file): path %q is referred to as %q (since op %d) but the import block binds it to %q", i, p, names[p], nameOp[p], b),
						Observed: trunc(string(o.Out), 1500)}
				}
			}
			ri.count("R2_import_blocks_checked", 1)
		}
	}
	return nil
}

func (propC08) Check(c *Case) (*Violation, *RunInfo) {
	ri := &RunInfo{}
	sim := c.Execs[0].sim()
	hist := Exec(c.Recipe, newEnv(sim))
	ri.Steps = sim.Steps
	ri.Frozen = []ExecSpec{frozenSpec(sim)}
	ri.count("non_identity_orders", len(sim.Log))
	okRenders := map[string]int{}
	var kinds []string
	for i := range hist {
		o := &hist[i]
		kinds = append(kinds, o.Kind)
		ri.States = append(ri.States, o.State)
		if o.Render {
			ri.count("renders_"+errClass(o), 1)
			if o.OK {
				okRenders[o.Obj]++
			}
			if o.Panic != "" {
				ri.count("render_panics", 1)
			}
		}
	}
	for _, n := range okRenders {
		if n >= 2 {
			ri.Nontrivial = true
		}
	}
	v := checkHistoryC08(c.Recipe, hist, ri)
	ri.Key = digest(kinds, ri.States)
	ri.Inter = digest(kinds, ri.Frozen)
	return v, ri
}

// Valid keeps minimisation inside the property's domain: no Anon on a path that is
// referenced anywhere in the recipe ("excluding Anon on an already referenced path").
func (propC08) Valid(c *Case) bool {
	r := c.Recipe
	n := len(r.Paths)
	if n == 0 {
		return true
	}
	ref := map[int]bool{}
	mark := func(nd *Node) {
		nd.walk(func(x *Node) {
			if x.K == "qual" {
				ref[((x.I%n)+n)%n] = true
			}
		})
	}
	for _, fr := range r.Frags {
		mark(fr)
	}
	for _, op := range r.Ops {
		switch op.K {
		case "add", "add_to_group":
			mark(op.Node)
		case "anon":
			for _, p := range op.P {
				if ref[((p%n)+n)%n] {
					return false
				}
			}
		}
	}
	return true
}
