package main

import "github.com/dave/jennifer/simhook"

// PermRec is one map-iteration-order decision actually taken.
type PermRec struct {
	// a decision is addressed by content: H = hash of the map's keys in canonical order,
	// Occ = how many ranges over keys with that hash this execution has seen so far
	H    uint64 `json:"h"`
	Occ  int    `json:"occ"`
	Site int    `json:"site"` // informational (site numbers differ between builds)
	N    int    `json:"n"`
	P    []int  `json:"p"`
}

type permKey struct {
	h   uint64
	occ int
}

// fileSim is the simulation installed for single-task engines: it owns map
// iteration order (S1) and filesystem faults (S3). The caller's writer (S2) is
// part of the recipe.
type fileSim struct {
	Mode   string // "identity" | "reverse" | "shuffle" | "replay"
	rng    *RNG
	replay map[permKey][]int
	occ    map[uint64]int
	calls  int
	Log    []PermRec
	Steps  uint64

	seed        uint64
	coinRng     *RNG
	coins       int
	CoinLog     []int // ordinals of coins that came up true
	replayCoins map[int]bool

	fsPlan  *FSPlan
	fsCalls int
	fsFired bool
}

func newFileSim(mode string, seed uint64) *fileSim {
	return &fileSim{Mode: mode, rng: NewRNG(seed), seed: seed}
}

func replaySim(perms []PermRec, coins []int) *fileSim {
	s := &fileSim{Mode: "replay", replay: map[permKey][]int{}, replayCoins: map[int]bool{}}
	for _, p := range perms {
		s.replay[permKey{p.H, p.Occ}] = p.P
	}
	for _, c := range coins {
		s.replayCoins[c] = true
	}
	return s
}

func (s *fileSim) Perm(site, n int, h uint64) []int {
	s.calls++
	if s.occ == nil {
		s.occ = map[uint64]int{}
	}
	s.occ[h]++
	occ := s.occ[h]
	var p []int
	switch s.Mode {
	case "identity":
		return nil
	case "reverse":
		p = make([]int, n)
		for i := range p {
			p[i] = n - 1 - i
		}
	case "shuffle":
		// drawn from a stream of its own, seeded by (run seed, content, occurrence)
		p = NewRNG(Mix(s.seed, h, uint64(occ))).Perm(n)
	case "replay":
		p = s.replay[permKey{h, occ}]
		if len(p) != n {
			return nil // not recorded or shape changed: neutral decision
		}
	}
	if !isIdentityPerm(p) {
		s.Log = append(s.Log, PermRec{H: h, Occ: occ, Site: site, N: n, P: p})
	}
	return p
}

func (s *fileSim) Yield(site int) { s.Steps++ }

func (s *fileSim) armFS(plan *FSPlan, on bool) {
	s.fsCalls = 0
	s.fsFired = false
	if on {
		s.fsPlan = plan
	} else {
		s.fsPlan = nil
	}
}

func (s *fileSim) FS(op, name string, size int) (int, error) {
	s.fsCalls++
	if s.fsPlan == nil || s.fsPlan.Inject == "" {
		return -1, nil
	}
	at := s.fsPlan.At
	if at <= 0 {
		at = 1
	}
	if s.fsCalls != at {
		return -1, nil
	}
	s.fsFired = true
	partial := -1
	if s.fsPlan.Inject != "eacces" && (op == "WriteFile" || op == "File.Write") {
		partial = size * s.fsPlan.Part / 100
	}
	return partial, fsErr(s.fsPlan.Inject, name)
}

// Blocked: a single task waiting for a lock can never be released.
func (s *fileSim) Blocked(what string) {
	panic("sim: deadlock: the only task blocks in " + what)
}

// Coin: cooperative fault point; drawn from the run's PRNG (replay: recorded answers in order).
func (s *fileSim) Coin(kind string) bool {
	s.coins++
	if kind == "clock-jump" && s.Mode != "replay" {
		// rare: one read in 64 finds the clock a minute later
		if s.Mode == "identity" {
			return false
		}
		if s.coinRng == nil {
			s.coinRng = NewRNG(Mix(s.seed, 0xc01))
		}
		v := s.coinRng.U64()&63 == 0
		if v {
			s.CoinLog = append(s.CoinLog, s.coins)
		}
		return v
	}
	if s.Mode == "replay" {
		if s.replayCoins[s.coins] {
			s.CoinLog = append(s.CoinLog, s.coins)
			return true
		}
		return false
	}
	if s.Mode == "identity" {
		return false
	}
	if s.coinRng == nil {
		s.coinRng = NewRNG(Mix(s.seed, 0xc01)) // own stream: coins never shift the map-order decisions
	}
	v := s.coinRng.Chance(0.5)
	if v {
		s.CoinLog = append(s.CoinLog, s.coins)
	}
	return v
}

var _ simhook.Sim = (*fileSim)(nil)
