package main

import "encoding/json"

// ExecSpec says how one execution of a recipe resolves its map-order decisions.
type ExecSpec struct {
	Mode  string    `json:"mode"` // identity | reverse | shuffle | replay
	Seed  uint64    `json:"seed,omitempty"`
	Perms []PermRec `json:"perms,omitempty"` // explicit decisions (mode replay)
	Coins []int     `json:"coins,omitempty"` // ordinals of cooperative fault points that fired (mode replay)
}

// frozenSpec is the explicit form of the decisions a simulation actually took.
func frozenSpec(s *fileSim) ExecSpec {
	return ExecSpec{Mode: "replay", Perms: s.Log, Coins: s.CoinLog}
}

func (e ExecSpec) sim() *fileSim {
	if e.Mode == "replay" {
		return replaySim(e.Perms, e.Coins)
	}
	return newFileSim(e.Mode, e.Seed)
}

// Case is one fully determined simulated run: executing it involves no PRNG once
// its ExecSpecs are frozen to mode "replay".
type Case struct {
	Property string          `json:"property"`
	Seed     uint64          `json:"seed"`
	Tier     string          `json:"tier,omitempty"`
	Cfg      json.RawMessage `json:"cfg,omitempty"` // the swarm configuration that generated it (informational)
	Recipe   *Recipe         `json:"recipe,omitempty"`
	Execs    []ExecSpec      `json:"execs,omitempty"`
	Conc     *ConcCase       `json:"conc,omitempty"`
	Clone    *CloneCase      `json:"clone,omitempty"`
	Dict     *DictCase       `json:"dict,omitempty"`
	// Pollute: unrelated recipes built and rendered in the same process between the
	// executions of Recipe (C07: output must not depend on what else the process has done)
	Pollute []*Recipe `json:"pollute,omitempty"`
}

// Violation is a property failing on a case.
type Violation struct {
	Rule     string `json:"rule"`
	Detail   string `json:"detail"`
	Observed string `json:"observed,omitempty"`
	Expected string `json:"expected,omitempty"`
	Op       int    `json:"op"`
	Exec     int    `json:"exec"`
}

// RunInfo is what a check reports besides its verdict.
type RunInfo struct {
	Frozen     []ExecSpec     // the decisions actually taken, explicit
	FrozenConc *ConcCase      // for C09: the schedule actually taken
	Nontrivial bool           // by the property's stated rule
	Key        string         // digest identifying the case for distinct counting
	Inter      string         // digest of the interleaving / decision sequence
	States     []string       // state digests visited
	Counters   map[string]int // fault kinds fired, probes, ...
	Steps      uint64
	OutDigest  string // C07: digest of what the reference execution rendered (compared across processes)
	Vacuous    bool   // the run never reached the oracle
	Sample     interface{}
}

func (ri *RunInfo) count(k string, n int) {
	if ri.Counters == nil {
		ri.Counters = map[string]int{}
	}
	ri.Counters[k] += n
}

// Property is one claimed property's simulation.
type Property interface {
	ID() string
	Level() string
	Rule() string // how cases are generated and what makes one non-trivial
	// Gen draws a case from a seed (all randomness comes from it).
	Gen(seed uint64, tier string) *Case
	// Check executes the case and judges it.
	Check(c *Case) (*Violation, *RunInfo)
	// Runs returns how many simulated runs a tier explores.
	Runs(tier string) int
}

var properties = map[string]Property{}

func register(p Property) { properties[p.ID()] = p }

// freeze makes a case independent of any PRNG by replacing its exec modes with the
// explicit decisions taken.
func freeze(c *Case, ri *RunInfo) *Case {
	fc := *c
	if ri != nil && ri.Frozen != nil {
		fc.Execs = ri.Frozen
	}
	if ri != nil && ri.FrozenConc != nil {
		fc.Conc = ri.FrozenConc
	}
	return &fc
}

// Indexed properties enumerate a fixed grid of cases at the low run indices before
// sampling by seed.
type Indexed interface {
	GenAt(index int, seed uint64, tier string) *Case
}

// PostChecker properties run an auxiliary leg after the seeded sweep.
type PostChecker interface {
	// Post returns an error when the leg itself could not run (machinery trouble).
	Post(tier string, base uint64) ([]workerViolation, map[string]int, error)
}
