package main

import (
	"bytes"
	"encoding/json"
	"fmt"
	"go/scanner"
	"go/token"
	"strconv"
	"strings"

	"github.com/dave/jennifer/jen"
)

// C20 — clone isolation. An original Statement and its (nested) clones are logical
// actors on one goroutine; a seeded scheduler picks which actor appends next and how
// wide the append is, so slice length meets and does not meet capacity at clone time.
// After every step every actor is rendered and compared with a list model.

type CloneStep struct {
	K string `json:"k"`           // "clone" | "dot" | "call" | "index" | "add"
	A int    `json:"a"`           // actor (modulo the number of actors alive)
	N int    `json:"n,omitempty"` // width of an "add"
}

type CloneCase struct {
	Init  int         `json:"init"` // how the root is built: number of initial Dot appends
	Steps []CloneStep `json:"steps"`
}

func (c *CloneCase) size() int { return 3*len(c.Steps) + c.Init }

type propC20 struct{}

func init() { register(propC20{}) }

func (propC20) ID() string    { return "C20" }
func (propC20) Level() string { return "exploration" }
func (propC20) Rule() string {
	return "a case = one seeded history of <=40 steps (thorough <=120) over an original Statement and up to 5 (thorough 8) clones nested to depth 3: Clone at seeded moments, appends of width 1 (Call, Index), 2 (Dot) or 1..9 (Add) by a seeded choice of actor; every actor rendered after every step; distinct = distinct (step-kind, actor, slice-capacity-state) sequence; non-trivial = at least one clone was taken while its parent had spare capacity and both sides appended afterwards"
}
func (propC20) Runs(tier string) int {
	if tier == "thorough" {
		return 400000
	}
	return 30000
}

func (propC20) Gen(seed uint64, tier string) *Case {
	r := NewRNG(seed)
	maxSteps, maxClones := 40, 5
	if tier == "thorough" {
		maxSteps, maxClones = 120, 8
	}
	cc := &CloneCase{Init: r.Intn(4)}
	n := r.Range(3, maxSteps)
	if r.Chance(0.5) {
		n = r.Range(3, 10) // many short histories
	}
	clones := 0
	pClone := []float64{0.1, 0.25, 0.4}[r.Intn(3)]
	for i := 0; i < n; i++ {
		a := r.Intn(1 + clones)
		if r.Chance(0.5) {
			a = clones // bias to the newest actor
		}
		if clones < maxClones && r.Chance(pClone) {
			cc.Steps = append(cc.Steps, CloneStep{K: "clone", A: a})
			clones++
			continue
		}
		switch r.Intn(7) {
		case 0:
			cc.Steps = append(cc.Steps, CloneStep{K: "dot", A: a})
		case 1:
			cc.Steps = append(cc.Steps, CloneStep{K: "call", A: a})
		case 2:
			cc.Steps = append(cc.Steps, CloneStep{K: "index", A: a})
		case 3:
			cc.Steps = append(cc.Steps, CloneStep{K: "callq", A: a})
		case 4:
			cc.Steps = append(cc.Steps, CloneStep{K: "assert", A: a})
		default:
			cc.Steps = append(cc.Steps, CloneStep{K: "add", A: a, N: r.Range(1, 9)})
		}
	}
	c := &Case{Property: "C20", Seed: seed, Tier: tier, Clone: cc}
	c.Cfg, _ = json.Marshal(map[string]interface{}{"p_clone": pClone, "steps": n})
	return c
}

type cloneActor struct {
	st       *jen.Statement
	parent   int
	depth    int
	own      []string // tokens appended to this actor itself
	atClone  []string // parent's rendered tokens when the clone was taken
	spare    bool     // parent had spare capacity at clone time
	appended bool
}

func scanTokens(src []byte) []string {
	fset := token.NewFileSet()
	f := fset.AddFile("x", -1, len(src))
	var s scanner.Scanner
	s.Init(f, src, func(token.Position, string) {}, 0)
	var out []string
	for {
		_, tok, lit := s.Scan()
		if tok == token.EOF {
			break
		}
		if tok == token.SEMICOLON && lit == "\n" {
			continue
		}
		if lit != "" {
			out = append(out, lit)
		} else {
			out = append(out, tok.String())
		}
	}
	return out
}

func (propC20) Check(c *Case) (*Violation, *RunInfo) {
	ri := &RunInfo{}
	cc := c.Clone
	uniq := 0
	next := func() string { uniq++; return "t" + strconv.Itoa(uniq) }
	root := &cloneActor{st: jen.Id("t0"), parent: -1, own: []string{"t0"}}
	for i := 0; i < cc.Init; i++ {
		n := next()
		root.st.Dot(n)
		root.own = append(root.own, ".", n)
	}
	actors := []*cloneActor{root}
	var trace []string
	render := func(a *cloneActor) ([]byte, error) {
		var buf bytes.Buffer
		var err error
		func() {
			defer func() {
				if p := recover(); p != nil {
					err = fmt.Errorf("panic: %v", p)
				}
			}()
			err = a.st.Render(&buf)
		}()
		return buf.Bytes(), err
	}
	// expected returns the acceptable token lists of actor i given the renders observed now
	var nowTokens [][]string
	checkAll := func(step int, what string) *Violation {
		nowTokens = make([][]string, len(actors))
		for i, a := range actors {
			out, err := render(a)
			if err != nil {
				return &Violation{Rule: "C20-render-failed", Op: step, Detail: fmt.Sprintf("after step %d (%s): actor %d does not render: %v", step, what, i, err)}
			}
			got := scanTokens(out)
			nowTokens[i] = got
			var wants [][]string
			if a.parent < 0 {
				wants = [][]string{a.own}
			} else {
				wants = [][]string{append(append([]string{}, a.atClone...), a.own...), append(append([]string{}, nowTokens[a.parent]...), a.own...)}
			}
			ok := false
			for _, w := range wants {
				if strings.Join(w, " ") == strings.Join(got, " ") {
					ok = true
				}
			}
			if !ok {
				who := "the original"
				if a.parent >= 0 {
					who = fmt.Sprintf("clone %d (of actor %d, depth %d)", i, a.parent, a.depth)
				}
				return &Violation{Rule: "C20-tokens-corrupted", Op: step,
					Detail:   fmt.Sprintf("after step %d (%s): %s renders %q; its own appends in order are %q after a prefix of %q", step, what, who, strings.Join(got, " "), strings.Join(a.own, " "), strings.Join(wants[0][:len(wants[0])-len(a.own)], " ")),
					Expected: strings.Join(wants[0], " "), Observed: strings.Join(got, " ")}
			}
		}
		return nil
	}
	if v := checkAll(-1, "initial"); v != nil {
		return v, ri
	}
	for si, st := range cc.Steps {
		ai := ((st.A % len(actors)) + len(actors)) % len(actors)
		a := actors[ai]
		what := fmt.Sprintf("%s by actor %d", st.K, ai)
		switch st.K {
		case "clone":
			if a.depth >= 3 {
				continue
			}
			before, _ := render(a)
			spare := cap(*a.st) > len(*a.st)
			cl := &cloneActor{st: a.st.Clone(), parent: ai, depth: a.depth + 1, atClone: scanTokens(before), spare: spare}
			actors = append(actors, cl)
			if spare {
				ri.count("capacity_spare_at_clone", 1)
			} else {
				ri.count("capacity_exhausted_at_clone", 1)
			}
			after, err := render(cl)
			if err != nil || !bytes.Equal(before, after) {
				return &Violation{Rule: "C20-fresh-clone-differs", Op: si, Detail: fmt.Sprintf("step %d: a clone of actor %d taken just now renders %q, its original %q (err=%v)", si, ai, after, before, err),
					Expected: string(before), Observed: string(after)}, ri
			}
			trace = append(trace, fmt.Sprintf("clone:%d:%v", ai, spare))
			ri.count("clones", 1)
			if cl.depth >= 2 {
				ri.count("nested_clones", 1)
			}
		case "dot":
			n := next()
			a.st.Dot(n)
			a.own = append(a.own, ".", n)
			a.appended = true
		case "call":
			n := next()
			a.st.Call(jen.Id(n))
			a.own = append(a.own, "(", n, ")")
			a.appended = true
		case "callq": // a qualified identifier as argument: rendering registers an import through the wrapper chain
			n := next()
			a.st.Call(jen.Qual("a.example/q"+n, "S"+n))
			a.own = append(a.own, "(", "q"+n, ".", "S"+n, ")")
			a.appended = true
		case "assert":
			n := next()
			a.st.Assert(jen.Id(n))
			a.own = append(a.own, ".", "(", n, ")")
			a.appended = true
		case "index":
			uniq++
			a.st.Index(jen.Lit(uniq))
			a.own = append(a.own, "[", strconv.Itoa(uniq), "]")
			a.appended = true
		case "add":
			var items []jen.Code
			for k := 0; k < st.N; k++ {
				if k%2 == 0 {
					n := next()
					items = append(items, jen.Call(jen.Id(n)))
					a.own = append(a.own, "(", n, ")")
				} else {
					uniq++
					items = append(items, jen.Index(jen.Lit(uniq)))
					a.own = append(a.own, "[", strconv.Itoa(uniq), "]")
				}
			}
			a.st.Add(items...)
			a.appended = true
		}
		if st.K != "clone" {
			trace = append(trace, fmt.Sprintf("%s:%d:%d/%d", st.K, ai, len(*a.st), cap(*a.st)))
			ri.count("appends", 1)
		}
		if v := checkAll(si, what); v != nil {
			return v, ri
		}
		ri.Steps++
	}
	for _, a := range actors {
		if a.parent >= 0 && a.spare && a.appended && actors[a.parent].appended {
			ri.Nontrivial = true
			ri.count("interleaved_appends_over_shared_spare_capacity", 1)
		}
	}
	ri.Key = digest(trace)
	ri.Inter = ri.Key
	return nil, ri
}

// Shrink drops steps and narrows appends.
func (propC20) Shrink(c *Case, v *Violation) []*Case {
	var out []*Case
	cc := c.Clone
	mk := func(steps []CloneStep, init int) *Case {
		nc := *c
		nc.Clone = &CloneCase{Init: init, Steps: steps}
		return &nc
	}
	if v.Op >= 0 && v.Op+1 < len(cc.Steps) {
		out = append(out, mk(append([]CloneStep{}, cc.Steps[:v.Op+1]...), cc.Init))
	}
	for i := len(cc.Steps) - 1; i >= 0; i-- {
		s := append(append([]CloneStep{}, cc.Steps[:i]...), cc.Steps[i+1:]...)
		out = append(out, mk(s, cc.Init))
	}
	for i, st := range cc.Steps {
		if st.K == "add" && st.N > 1 {
			s := append([]CloneStep{}, cc.Steps...)
			s[i].N = st.N - 1
			out = append(out, mk(s, cc.Init))
		}
	}
	if cc.Init > 0 {
		out = append(out, mk(cc.Steps, cc.Init-1))
	}
	return out
}
