package main

import (
	"bytes"
	"encoding/json"
	"fmt"
	"go/scanner"
	"go/token"
	"strconv"
	"strings"

	"github.com/dave/jennifer/jen"
)

// C20 — clone isolation. An original Statement and its (nested) clones are logical
// actors on one goroutine; a seeded scheduler picks which actor appends next and how
// wide the append is, so slice length meets and does not meet capacity at clone time.
// After every step every actor is rendered and compared with a list model.

type CloneStep struct {
	K string `json:"k"`           // "clone" | "dot" | "call" | "index" | "add"
	A int    `json:"a"`           // actor (modulo the number of actors alive)
	N int    `json:"n,omitempty"` // width of an "add"
}

type CloneCase struct {
	Init   int         `json:"init"`             // how the root is built: number of initial Dot appends; -1 = an empty Statement
	Nils   int         `json:"nils,omitempty"`   // nil items placed inside the root (they render as nothing)
	Clause bool        `json:"clause,omitempty"` // case-clause scenario: heads (Case/Default) on the original, Blocks on clones
	Deep   int         `json:"deep,omitempty"`   // chain scenario: x = x.Clone().Dot(t) repeated Deep times
	Steps  []CloneStep `json:"steps"`
}

func (c *CloneCase) size() int { return 3*len(c.Steps) + c.Init + 2*c.Nils + 2 + c.Deep }

type propC20 struct{}

func init() { register(propC20{}) }

func (propC20) ID() string    { return "C20" }
func (propC20) Level() string { return "exploration" }
func (propC20) Rule() string {
	return "a case = one seeded history of <=40 steps (thorough <=120) over an original Statement and up to 5 (thorough 8) clones nested to depth 3: Clone at seeded moments, appends of width 1 (Call, Index), 2 (Dot) or 1..9 (Add) by a seeded choice of actor; every actor rendered after every step; distinct = distinct (step-kind, actor, slice-capacity-state) sequence; non-trivial = at least one clone was taken while its parent had spare capacity and both sides appended afterwards"
}
func (propC20) Runs(tier string) int {
	if tier == "thorough" {
		return 400000
	}
	return 30000
}

func (propC20) Gen(seed uint64, tier string) *Case {
	r := NewRNG(seed)
	maxSteps, maxClones := 40, 5
	if tier == "thorough" {
		maxSteps, maxClones = 120, 8
	}
	cc := &CloneCase{Init: r.Intn(4)}
	if r.Chance(0.004) {
		// a long chain of nested clones (the idiom sum = sum.Clone().Op("+").Id(x) in a loop)
		cc.Deep = r.Pick2(300, 1100, 2600)
		c := &Case{Property: "C20", Seed: seed, Tier: tier, Clone: cc}
		c.Cfg, _ = json.Marshal(map[string]interface{}{"deep": cc.Deep})
		return c
	}
	switch r.Intn(12) {
	case 0:
		cc.Init = -1 // the original is empty when it is cloned
	case 1:
		cc.Nils = r.Range(1, 2)
	case 2:
		// clause scenario: few steps over {clone, block on a clone, Case/Default on the original}
		cc.Init, cc.Clause = -1, true
		for i := r.Range(3, 8); i > 0; i-- {
			cc.Steps = append(cc.Steps, CloneStep{K: r.Pick([]string{"clone", "clone", "block", "block", "head"}), A: r.Intn(4), N: r.Intn(2)})
		}
		c := &Case{Property: "C20", Seed: seed, Tier: tier, Clone: cc}
		c.Cfg, _ = json.Marshal(map[string]interface{}{"clause": true})
		return c
	}
	n := r.Range(3, maxSteps)
	if r.Chance(0.5) {
		n = r.Range(3, 10) // many short histories
	}
	clones := 0
	pClone := []float64{0.1, 0.25, 0.4}[r.Intn(3)]
	for i := 0; i < n; i++ {
		a := r.Intn(1 + clones)
		if r.Chance(0.5) {
			a = clones // bias to the newest actor
		}
		if clones < maxClones && r.Chance(pClone) {
			cc.Steps = append(cc.Steps, CloneStep{K: "clone", A: a})
			clones++
			continue
		}
		switch r.Intn(9) {
		case 7:
			if r.Chance(0.3) {
				cc.Steps = append(cc.Steps, CloneStep{K: "tag", A: a})
			} else {
				cc.Steps = append(cc.Steps, CloneStep{K: "spread", A: a})
			}
		case 8:
			cc.Steps = append(cc.Steps, CloneStep{K: "nil", A: a})
		case 0:
			cc.Steps = append(cc.Steps, CloneStep{K: "dot", A: a})
		case 1:
			cc.Steps = append(cc.Steps, CloneStep{K: "call", A: a})
		case 2:
			cc.Steps = append(cc.Steps, CloneStep{K: "index", A: a})
		case 3:
			cc.Steps = append(cc.Steps, CloneStep{K: "callq", A: a})
		case 4:
			cc.Steps = append(cc.Steps, CloneStep{K: "assert", A: a})
		default:
			cc.Steps = append(cc.Steps, CloneStep{K: "add", A: a, N: r.Range(1, 9)})
		}
	}
	c := &Case{Property: "C20", Seed: seed, Tier: tier, Clone: cc}
	c.Cfg, _ = json.Marshal(map[string]interface{}{"p_clone": pClone, "steps": n})
	return c
}

type cloneActor struct {
	st       *jen.Statement
	parent   int
	depth    int
	own      []string // tokens appended to this actor itself
	atClone  []string // parent's rendered tokens when the clone was taken
	spare    bool     // parent had spare capacity at clone time
	appended bool
}

// rawTokens observes a Statement without go/format: a NoFormat File containing only that
// statement renders whatever the items produce, valid Go or not (the scanner tokenises any
// text), so actors can be compared with the model even when their chain is not an expression.
func rawTokens(st *jen.Statement) (toks []string, err error) {
	defer func() {
		if p := recover(); p != nil {
			err = fmt.Errorf("panic: %v", p)
		}
	}()
	f := jen.NewFile("x")
	f.NoFormat = true
	f.Add(st)
	var buf bytes.Buffer
	if err := f.Render(&buf); err != nil {
		return nil, err
	}
	all := scanTokens(buf.Bytes())
	if len(all) >= 2 && all[0] == "package" {
		all = all[2:]
	}
	// skip the import block the File writes for qualified identifiers
	if len(all) > 0 && all[0] == "import" {
		i := 1
		if i < len(all) && all[i] == "(" {
			for i < len(all) && all[i] != ")" {
				i++
			}
			i++
		} else {
			if i < len(all) && !strings.HasPrefix(all[i], "\"") {
				i++ // alias
			}
			i++ // path
		}
		if i > len(all) {
			i = len(all)
		}
		all = all[i:]
	}
	return all, nil
}

func scanTokens(src []byte) []string {
	fset := token.NewFileSet()
	f := fset.AddFile("x", -1, len(src))
	var s scanner.Scanner
	s.Init(f, src, func(token.Position, string) {}, 0)
	var out []string
	for {
		_, tok, lit := s.Scan()
		if tok == token.EOF {
			break
		}
		if tok == token.SEMICOLON && lit == "\n" {
			continue
		}
		if lit != "" {
			out = append(out, lit)
		} else {
			out = append(out, tok.String())
		}
	}
	return out
}

func (propC20) Check(c *Case) (*Violation, *RunInfo) {
	ri := &RunInfo{}
	cc := c.Clone
	uniq := 0
	next := func() string { uniq++; return "t" + strconv.Itoa(uniq) }
	if cc.Clause {
		return checkClause(c, ri)
	}
	if cc.Deep > 0 {
		return checkDeep(c, ri)
	}
	root := &cloneActor{st: jen.Id("t0"), parent: -1, own: []string{"t0"}}
	if cc.Init < 0 {
		root = &cloneActor{st: jen.Add(), parent: -1}
		ri.count("empty_original", 1)
	}
	for i := 0; i < cc.Init; i++ {
		n := next()
		root.st.Dot(n)
		root.own = append(root.own, ".", n)
	}
	for i := 0; i < cc.Nils && len(*root.st) > 0; i++ {
		// a nil item after the first token (Statement is a public slice type)
		rest := append([]jen.Code{nil}, (*root.st)[1:]...)
		*root.st = append((*root.st)[:1:1], rest...)
		ri.count("nil_items_in_original", 1)
	}
	actors := []*cloneActor{root}
	invalid := map[int]bool{} // actors whose chain contains a struct tag: not a Go expression any more
	tagged := map[int]bool{}  // at most one Tag per actor (two consecutive tags of one owner are no valid field either way)
	hasTokensBelow := func(ai int) bool { // some descendant of ai already has tokens of its own
		for i, x := range actors {
			for p := x.parent; p >= 0; p = actors[p].parent {
				if p == ai && len(actors[i].own) > 0 {
					return true
				}
			}
		}
		return false
	}
	var trace []string
	render := func(a *cloneActor) ([]byte, error) {
		var buf bytes.Buffer
		var err error
		func() {
			defer func() {
				if p := recover(); p != nil {
					err = fmt.Errorf("panic: %v", p)
				}
			}()
			err = a.st.Render(&buf)
		}()
		return buf.Bytes(), err
	}
	// expected returns the acceptable token lists of actor i given the renders observed now
	var nowTokens [][]string
	checkAll := func(step int, what string) *Violation {
		nowTokens = make([][]string, len(actors))
		for i, a := range actors { // a clone may render its parent's current tokens: invalidity is inherited
			if a.parent >= 0 && invalid[a.parent] {
				invalid[i] = true
			}
		}
		for i, a := range actors {
			var got []string
			if invalid[i] {
				// the chain is deliberately not an expression (a struct tag in it): observed raw only
				var err error
				got, err = rawTokens(a.st)
				if err != nil {
					return &Violation{Rule: "C20-render-failed", Op: step, Detail: fmt.Sprintf("after step %d (%s): actor %d does not render (NoFormat File): %v", step, what, i, err)}
				}
			} else {
				out, err := render(a)
				if err != nil {
					return &Violation{Rule: "C20-render-failed", Op: step, Detail: fmt.Sprintf("after step %d (%s): actor %d does not render: %v", step, what, i, err)}
				}
				got = scanTokens(out)
				if raw, err := rawTokens(a.st); err != nil || strings.Join(raw, " ") != strings.Join(got, " ") {
					return &Violation{Rule: "C20-tokens-corrupted", Op: step, Detail: fmt.Sprintf("after step %d (%s): actor %d renders %q formatted but %q inside a NoFormat File (err=%v)", step, what, i, strings.Join(got, " "), strings.Join(raw, " "), err)}
				}
			}
			nowTokens[i] = got
			var wants [][]string
			if a.parent < 0 {
				wants = [][]string{a.own}
			} else {
				wants = [][]string{append(append([]string{}, a.atClone...), a.own...), append(append([]string{}, nowTokens[a.parent]...), a.own...)}
			}
			ok := false
			for _, w := range wants {
				if strings.Join(w, " ") == strings.Join(got, " ") {
					ok = true
				}
			}
			if !ok {
				who := "the original"
				if a.parent >= 0 {
					who = fmt.Sprintf("clone %d (of actor %d, depth %d)", i, a.parent, a.depth)
				}
				return &Violation{Rule: "C20-tokens-corrupted", Op: step,
					Detail:   fmt.Sprintf("after step %d (%s): %s renders %q; its own appends in order are %q after a prefix of %q", step, what, who, strings.Join(got, " "), strings.Join(a.own, " "), strings.Join(wants[0][:len(wants[0])-len(a.own)], " ")),
					Expected: strings.Join(wants[0], " "), Observed: strings.Join(got, " ")}
			}
		}
		return nil
	}
	if v := checkAll(-1, "initial"); v != nil {
		return v, ri
	}
	for si, st := range cc.Steps {
		ai := ((st.A % len(actors)) + len(actors)) % len(actors)
		a := actors[ai]
		what := fmt.Sprintf("%s by actor %d", st.K, ai)
		kind := st.K
		if kind != "clone" && len(nowTokens[ai]) == 0 {
			// nothing rendered yet: the only append that keeps the chain a valid expression is an identifier
			if hasTokensBelow(ai) {
				continue
			}
			kind = "id"
		}
		switch kind {
		case "id":
			n := next()
			a.st.Id(n)
			a.own = append(a.own, n)
			a.appended = true
		case "nil":
			*a.st = append(*a.st, nil)
			a.appended = true
		case "tag":
			if tagged[ai] {
				continue
			}
			n := next()
			a.st.Tag(map[string]string{n: "v"})
			a.own = append(a.own, "`"+n+`:"v"`+"`")
			a.appended = true
			tagged[ai] = true
			// this actor and everything cloned from it from now on (or following it) is no expression
			invalid[ai] = true
			ri.count("struct_tags_appended", 1)
		case "spread":
			// the original's items spread into this actor: x.Op("+").Add(*orig...)
			if len(root.own) == 0 || a == root {
				continue
			}
			a.st.Op("+").Add(*root.st...) // the original's own slice is the variadic argument
			a.own = append(append(a.own, "+"), root.own...)
			a.appended = true
			ri.count("spreads_of_the_original", 1)
		case "clone":
			if a.depth >= 3 {
				continue
			}
			spare := cap(*a.st) > len(*a.st)
			cl := &cloneActor{st: a.st.Clone(), parent: ai, depth: a.depth + 1, atClone: append([]string{}, nowTokens[ai]...), spare: spare}
			actors = append(actors, cl)
			if invalid[ai] {
				invalid[len(actors)-1] = true
			}
			if spare {
				ri.count("capacity_spare_at_clone", 1)
			} else {
				ri.count("capacity_exhausted_at_clone", 1)
			}
			// an unmodified clone renders exactly like its original
			if invalid[ai] {
				pt, perr := rawTokens(a.st)
				ct, cerr := rawTokens(cl.st)
				if perr != nil || cerr != nil || strings.Join(pt, " ") != strings.Join(ct, " ") {
					return &Violation{Rule: "C20-fresh-clone-differs", Op: si, Detail: fmt.Sprintf("step %d: a clone of actor %d taken just now renders %q, its original %q (errs %v %v)", si, ai, strings.Join(ct, " "), strings.Join(pt, " "), cerr, perr),
						Expected: strings.Join(pt, " "), Observed: strings.Join(ct, " ")}, ri
				}
			} else {
				before, _ := render(a)
				after, err := render(cl)
				if err != nil || !bytes.Equal(before, after) {
					return &Violation{Rule: "C20-fresh-clone-differs", Op: si, Detail: fmt.Sprintf("step %d: a clone of actor %d taken just now renders %q, its original %q (err=%v)", si, ai, after, before, err),
						Expected: string(before), Observed: string(after)}, ri
				}
			}
			trace = append(trace, fmt.Sprintf("clone:%d:%v", ai, spare))
			ri.count("clones", 1)
			if cl.depth >= 2 {
				ri.count("nested_clones", 1)
			}
		case "dot":
			n := next()
			a.st.Dot(n)
			a.own = append(a.own, ".", n)
			a.appended = true
		case "call":
			n := next()
			a.st.Call(jen.Id(n))
			a.own = append(a.own, "(", n, ")")
			a.appended = true
		case "callq": // a qualified identifier as argument: rendering registers an import through the wrapper chain
			n := next()
			a.st.Call(jen.Qual("a.example/q"+n, "S"+n))
			a.own = append(a.own, "(", "q"+n, ".", "S"+n, ")")
			a.appended = true
		case "assert":
			n := next()
			a.st.Assert(jen.Id(n))
			a.own = append(a.own, ".", "(", n, ")")
			a.appended = true
		case "index":
			uniq++
			a.st.Index(jen.Lit(uniq))
			a.own = append(a.own, "[", strconv.Itoa(uniq), "]")
			a.appended = true
		case "add":
			var items []jen.Code
			for k := 0; k < st.N; k++ {
				if k%2 == 0 {
					n := next()
					items = append(items, jen.Call(jen.Id(n)))
					a.own = append(a.own, "(", n, ")")
				} else {
					uniq++
					items = append(items, jen.Index(jen.Lit(uniq)))
					a.own = append(a.own, "[", strconv.Itoa(uniq), "]")
				}
			}
			a.st.Add(items...)
			a.appended = true
		}
		if kind != "clone" {
			trace = append(trace, fmt.Sprintf("%s:%d:%d/%d", st.K, ai, len(*a.st), cap(*a.st)))
			ri.count("appends", 1)
		}
		if v := checkAll(si, what); v != nil {
			return v, ri
		}
		ri.Steps++
	}
	for _, a := range actors {
		if a.parent >= 0 && a.spare && a.appended && actors[a.parent].appended {
			ri.Nontrivial = true
			ri.count("interleaved_appends_over_shared_spare_capacity", 1)
		}
	}
	ri.Key = digest(trace)
	ri.Inter = ri.Key
	return nil, ri
}

// Shrink drops steps and narrows appends.
func (propC20) Shrink(c *Case, v *Violation) []*Case {
	var out []*Case
	cc := c.Clone
	mk := func(steps []CloneStep, init int) *Case {
		nc := *c
		nc.Clone = &CloneCase{Init: init, Steps: steps}
		return &nc
	}
	if cc.Deep > 0 {
		for _, d := range []int{cc.Deep / 2, cc.Deep - 100, cc.Deep - 1} {
			if d > 0 && d < cc.Deep {
				nc := *c
				nc.Clone = &CloneCase{Deep: d}
				out = append(out, &nc)
			}
		}
		return out
	}
	if v.Op >= 0 && v.Op+1 < len(cc.Steps) {
		out = append(out, mk(append([]CloneStep{}, cc.Steps[:v.Op+1]...), cc.Init))
	}
	for i := len(cc.Steps) - 1; i >= 0; i-- {
		s := append(append([]CloneStep{}, cc.Steps[:i]...), cc.Steps[i+1:]...)
		out = append(out, mk(s, cc.Init))
	}
	for i, st := range cc.Steps {
		if st.K == "add" && st.N > 1 {
			s := append([]CloneStep{}, cc.Steps...)
			s[i].N = st.N - 1
			out = append(out, mk(s, cc.Init))
		}
	}
	if cc.Init > 0 {
		out = append(out, mk(cc.Steps, cc.Init-1))
	}
	return out
}


// checkClause: the case-clause scenario. The original starts empty and may get a head
// (Case(x) or Default()); clones may get a Block. A Block directly after a Case/Default
// renders without braces, a Block appended to a clone keeps them (its previous item is
// the clone's wrapper) - whatever is appended to the original later must not alter it.
func checkClause(c *Case, ri *RunInfo) (*Violation, *RunInfo) {
	cc := c.Clone
	uniq := 0
	next := func() string { uniq++; return "t" + strconv.Itoa(uniq) }
	root := &cloneActor{st: jen.Add(), parent: -1}
	actors := []*cloneActor{root}
	blocks := map[int]bool{}
	hasHead := false
	chainHasBlock := func(ai int) bool {
		for p := ai; p >= 0; p = actors[p].parent {
			if blocks[p] {
				return true
			}
		}
		return false
	}
	belowHasBlock := func(ai int) bool {
		for i := range actors {
			for p := actors[i].parent; p >= 0; p = actors[p].parent {
				if p == ai && blocks[i] {
					return true
				}
			}
		}
		return false
	}
	expected := func(ai int) []string {
		var chain []int
		for p := ai; p >= 0; p = actors[p].parent {
			chain = append([]int{p}, chain...)
		}
		var out []string
		for _, p := range chain {
			out = append(out, actors[p].own...)
		}
		return out
	}
	var trace []string
	_ = expected
	// renderInner renders an actor bare or, when that is not a valid fragment (a clause
	// needs a switch around it), inside Switch().Block(...), and returns the actor's own tokens.
	renderInner := func(a *cloneActor) ([]string, error) {
		var firstErr error
		for _, wrap := range []bool{false, true} {
			var buf bytes.Buffer
			var err error
			func() {
				defer func() {
					if p := recover(); p != nil {
						err = fmt.Errorf("panic: %v", p)
					}
				}()
				if wrap {
					err = jen.Switch().Block(a.st).Render(&buf)
				} else {
					err = a.st.Render(&buf)
				}
			}()
			if err != nil {
				if firstErr == nil {
					firstErr = err
				}
				continue
			}
			toks := scanTokens(buf.Bytes())
			if wrap {
				if len(toks) < 3 || toks[0] != "switch" || toks[1] != "{" || toks[len(toks)-1] != "}" {
					return nil, fmt.Errorf("unexpected wrapper tokens %q", strings.Join(toks, " "))
				}
				toks = toks[2 : len(toks)-1]
			}
			return toks, nil
		}
		return nil, firstErr
	}
	now := map[int][]string{}
	blockForm := map[int]string{}
	checkAll := func(step int, what string) *Violation {
		for i, a := range actors {
			got, err := renderInner(a)
			if err != nil {
				return &Violation{Rule: "C20-render-failed", Op: step, Detail: fmt.Sprintf("after step %d (%s): actor %d does not render: %v", step, what, i, err)}
			}
			now[i] = got
			// acceptable renderings: prefix = the parent's rendering at clone time or now (a copying
			// and a wrapping clone are both fine), then the actor's own appends; a Block of its own
			// may lose its braces only if what precedes it in the same rendering is a clause head
			var prefixes [][]string
			if a.parent < 0 {
				prefixes = [][]string{nil}
			} else {
				prefixes = [][]string{a.atClone, now[a.parent]}
			}
			ok := false
			var wants []string
			for _, p := range prefixes {
				variants := [][]string{a.own}
				if blocks[i] && len(p) > 0 && p[len(p)-1] == ":" && len(a.own) == 5 {
					variants = append(variants, a.own[1:4])
				}
				for vi, v := range variants {
					w := strings.Join(append(append([]string{}, p...), v...), " ")
					wants = append(wants, w)
					if w == strings.Join(got, " ") && !ok {
						ok = true
						if blocks[i] {
							// however the clone's own Block was rendered when it was appended, later
							// appends to the original must not alter it
							form := []string{"with braces", "without braces"}[vi]
							if old, seen := blockForm[i]; seen && old != form {
								return &Violation{Rule: "C20-tokens-corrupted", Op: step,
									Detail:   fmt.Sprintf("after step %d (%s): the Block appended to clone %d was rendered %s when it was appended and is rendered %s now: a token owned by the clone was altered by a later append to its original", step, what, i, old, form),
									Expected: old, Observed: strings.Join(got, " ")}
							}
							blockForm[i] = form
						}
					}
				}
			}
			if !ok {
				return &Violation{Rule: "C20-tokens-corrupted", Op: step,
					Detail:   fmt.Sprintf("after step %d (%s): actor %d (parent %d) renders %q; acceptable: %q", step, what, i, a.parent, strings.Join(got, " "), wants),
					Expected: strings.Join(wants, " | "), Observed: strings.Join(got, " ")}
			}
		}
		return nil
	}
	for si, st := range cc.Steps {
		ai := ((st.A % len(actors)) + len(actors)) % len(actors)
		a := actors[ai]
		what := fmt.Sprintf("%s by actor %d", st.K, ai)
		switch st.K {
		case "clone":
			if a.depth >= 3 || len(actors) >= 5 {
				continue
			}
			actors = append(actors, &cloneActor{st: a.st.Clone(), parent: ai, depth: a.depth + 1, atClone: append([]string{}, now[ai]...)})
			ri.count("clones", 1)
		case "block":
			if a.parent < 0 || chainHasBlock(ai) || belowHasBlock(ai) {
				continue
			}
			n := next()
			a.st.Block(jen.Id(n).Call())
			a.own = append(a.own, "{", n, "(", ")", "}")
			blocks[ai] = true
			a.appended = true
			ri.count("blocks_on_clones", 1)
		case "head":
			if hasHead {
				continue
			}
			if st.N == 0 {
				root.st.Default()
				root.own = append(root.own, "default", ":")
			} else {
				n := next()
				root.st.Case(jen.Id(n))
				root.own = append(root.own, "case", n, ":")
			}
			hasHead = true
			root.appended = true
			ri.count("heads_on_original_after_clone_blocks", len(blocks))
		default:
			continue
		}
		trace = append(trace, fmt.Sprintf("%s:%d", st.K, ai))
		if v := checkAll(si, what); v != nil {
			return v, ri
		}
		ri.Steps++
	}
	ri.Nontrivial = hasHead && len(blocks) > 0
	ri.Key = digest("clause", trace)
	ri.Inter = ri.Key
	return nil, ri
}


// checkDeep: a chain x0, x1 = x0.Clone().Dot(t1), x2 = x1.Clone().Dot(t2), ... Every
// link is an unmodified-then-extended clone of the previous one; the last must render all
// tokens in order, however long the chain, and the original stays what it was.
func checkDeep(c *Case, ri *RunInfo) (*Violation, *RunInfo) {
	n := c.Clone.Deep
	root := jen.Id("t0")
	cur := root
	want := []string{"t0"}
	for i := 1; i <= n; i++ {
		cur = cur.Clone().Dot("t" + strconv.Itoa(i))
		want = append(want, ".", "t"+strconv.Itoa(i))
		if i == n/2 || i == n {
			for _, obs := range []string{"formatted", "raw"} {
				var got []string
				var err error
				if obs == "raw" {
					got, err = rawTokens(cur)
				} else {
					var buf bytes.Buffer
					func() {
						defer func() {
							if p := recover(); p != nil {
								err = fmt.Errorf("panic: %v", p)
							}
						}()
						err = cur.Render(&buf)
					}()
					got = scanTokens(buf.Bytes())
				}
				if err != nil {
					return &Violation{Rule: "C20-render-failed", Op: i, Detail: fmt.Sprintf("a chain of %d nested clones, each extended by one selector, does not render (%s): %v", i, obs, trunc(err.Error(), 300))}, ri
				}
				if strings.Join(got, " ") != strings.Join(want, " ") {
					return &Violation{Rule: "C20-tokens-corrupted", Op: i, Detail: fmt.Sprintf("a chain of %d nested clones renders %d tokens (%s), its appends are %d tokens; first tokens %q", i, len(got), obs, len(want), strings.Join(got[:min(len(got), 12)], " "))}, ri
				}
			}
		}
	}
	if got, err := rawTokens(root); err != nil || strings.Join(got, " ") != "t0" {
		return &Violation{Rule: "C20-tokens-corrupted", Op: n, Detail: fmt.Sprintf("the original of a chain of %d clones renders %q (err %v)", n, strings.Join(got, " "), err)}, ri
	}
	ri.count("deep_clone_chains", 1)
	ri.Steps = uint64(n)
	ri.Nontrivial = true
	ri.Key = digest("deep", n)
	ri.Inter = ri.Key
	return nil, ri
}
