package main

import (
	"bufio"
	"bytes"
	"context"
	"encoding/json"
	"fmt"
	"os"
	"os/exec"
	"path/filepath"
	"regexp"
	"runtime"
	"sort"
	"strconv"
	"strings"
	"sync"
	"time"

	"github.com/dave/jennifer/simhook"
)

// ---- worker ----------------------------------------------------------------

type workerViolation struct {
	Index int        `json:"index"`
	Seed  uint64     `json:"seed"`
	V     *Violation `json:"v"`
	Case  *Case      `json:"case"`
}

type workerSummary struct {
	From, To    int
	Evaluations int
	Vacuous     int
	Keys        []string          // nontrivial case digests
	Inters      []string          // interleaving digests
	States      []string          // state digests
	Counters    map[string]int    `json:"counters"`
	Steps       uint64            `json:"steps"`
	Violations  []workerViolation `json:"violations"`
	NViol       int               `json:"nviol"`
	Known       map[string]int    `json:"known"`   // violating runs attributed to an open known finding, per finding id
	Dropped     int               `json:"dropped"` // unattributed violating runs beyond the transmit cap
	Det         map[string]string `json:"det"` // index -> event digest (determinism sample)
	SitesHit    []int             `json:"sites_hit"`
	NumSites    int               `json:"num_sites"`
	Samples     []json.RawMessage `json:"samples"`
	Uncontrolled int              `json:"uncontrolled"`
	Meta        map[string]string `json:"meta"`
	MapCalls    map[string]int    `json:"map_calls"`
	WallS       float64           `json:"wall_s"`
}

const detEvery = 97

// setCap bounds the per-worker sets of interleaving / state digests (evidence counts
// are then lower bounds); the set of distinct non-trivial cases is always exact.
const setCap = 250000

func eventDigest(c *Case, v *Violation, ri *RunInfo) string {
	if simhook.Concurrent {
		// goroutines of package jen's own run outside the simulator's control: only what does
		// not depend on their interleaving is claimed to repeat
		rule := ""
		if v != nil {
			rule = v.Rule
		}
		return digest(c.Recipe, c.Conc, c.Clone, c.Dict, rule)
	}
	return digest(c.Recipe, c.Conc, c.Clone, c.Dict, ri.Frozen, ri.FrozenConc, ri.Inter, ri.States, v, ri.Counters, ri.Key)
}

func runWorker(prop Property, tier string, base uint64, from, to int, only map[int]bool, maxViol int) *workerSummary {
	t0 := time.Now()
	ws := &workerSummary{From: from, To: to, Counters: map[string]int{}, Det: map[string]string{}, Known: map[string]int{}}
	findings := loadFindings(verifRoot())
	keys, inters, states := map[string]bool{}, map[string]bool{}, map[string]bool{}
	var progress *os.File
	if p := os.Getenv("VERIF_PROGRESS"); p != "" {
		progress, _ = os.OpenFile(p, os.O_CREATE|os.O_WRONLY, 0644)
	}
	for i := from; i < to; i++ {
		if only != nil && !only[i] {
			continue
		}
		if progress != nil {
			progress.WriteAt([]byte(fmt.Sprintf("%-20d", i)), 0) // which run is executing, should the process die
		}
		seed := RunSeed(base, prop.ID(), i)
		var c *Case
		if ix, ok := prop.(Indexed); ok {
			c = ix.GenAt(i, seed, tier)
		} else {
			c = prop.Gen(seed, tier)
		}
		v, ri := runCheck(prop, c)
		ws.Evaluations++
		ws.Steps += ri.Steps
		if ri.Vacuous {
			ws.Vacuous++
		}
		if ri.Nontrivial {
			keys[ri.Key] = true
		}
		if ri.Inter != "" && len(inters) < setCap {
			inters[ri.Inter] = true
		}
		for _, s := range ri.States {
			if len(states) < setCap {
				states[s] = true
			}
		}
		for k, n := range ri.Counters {
			ws.Counters[k] += n
		}
		ws.Uncontrolled += simhook.Uncontrolled
		if i%detEvery == 0 || only != nil {
			ws.Det[strconv.Itoa(i)] = eventDigest(c, v, ri) + "|" + ri.OutDigest
		}
		if len(ws.Samples) < 2 && from == 0 && ri.Nontrivial {
			fc := freeze(c, ri)
			b, _ := json.Marshal(map[string]interface{}{"index": i, "seed": seed, "case": fc, "info": ri.Sample})
			if len(b) < 20000 {
				ws.Samples = append(ws.Samples, b)
			}
		}
		if v != nil {
			ws.NViol++
			fc := freeze(c, ri)
			if kfs := classify(prop, fc, findings, v); kfs != nil {
				for _, kf := range kfs {
					ws.Known[kf.ID]++
				}
			} else if len(ws.Violations) < maxViol {
				ws.Violations = append(ws.Violations, workerViolation{Index: i, Seed: seed, V: v, Case: fc})
			} else {
				ws.Dropped++
			}
		}
	}
	for k := range keys {
		ws.Keys = append(ws.Keys, k)
	}
	for k := range inters {
		ws.Inters = append(ws.Inters, k)
	}
	for k := range states {
		ws.States = append(ws.States, k)
	}
	for id, n := range simhook.Hits {
		if n > 0 {
			ws.SitesHit = append(ws.SitesHit, id)
		}
	}
	if simhook.ClockReads > 0 {
		ws.Counters["simulated_clock_reads"] = simhook.ClockReads
		ws.Counters["simulated_clock_jumps_injected"] = simhook.ClockJumps
	}
	ws.NumSites = simhook.NumSites
	ws.Meta = simhook.Meta
	ws.MapCalls = map[string]int{}
	for site, n := range simhook.MapCalls {
		name := simhook.MapSites[site]
		ws.MapCalls[name+" calls"] += n
		ws.MapCalls[name+" n>=2"] += simhook.MapCallsMulti[site]
		ws.MapCalls[name+" non-identity"] += simhook.MapNonIdentity[site]
	}
	ws.WallS = time.Since(t0).Seconds()
	return ws
}

// ---- driver ----------------------------------------------------------------

type knownFinding struct {
	ID          string `json:"id"`
	Property    string `json:"property"`
	Status      string `json:"status"` // "open" | "fixed"
	What        string `json:"what"`
	Neutraliser string `json:"neutraliser,omitempty"`
	Commit      string `json:"commit,omitempty"`
	// OnlyIf, if set, is a regular expression the violation's detail must match for the
	// finding to apply (narrows a finding to the call sites where it is known to show)
	OnlyIf string `json:"only_if,omitempty"`
}

func loadFindings(root string) []knownFinding {
	b, err := os.ReadFile(filepath.Join(root, "known_findings.json"))
	if err != nil {
		return nil
	}
	var f struct {
		Findings []knownFinding `json:"findings"`
	}
	if err := json.Unmarshal(b, &f); err != nil {
		fatal2("known_findings.json: %v", err)
	}
	return f.Findings
}

// neutralisers remove the trigger of one known finding from a case, leaving everything else alone.
var neutralisers = map[string]func(*Case) (*Case, bool){}

// classify attributes a violation to an open known finding, if neutralising that
// finding's trigger (and nothing else) makes the case pass.
func classify(prop Property, c *Case, findings []knownFinding, v *Violation) []*knownFinding {
	// Neutralise one open finding's trigger at a time, each time against the violation the
	// case currently shows (a finding with OnlyIf applies only to violations it matches).
	// The case is attributed iff some sequence of neutralisations makes it pass; the moment
	// nothing applicable is left and it still fails, it is a violation of its own.
	cur, curV := c, v
	var used []*knownFinding
	for iter := 0; iter < 5; iter++ {
		progressed := false
		for i := range findings {
			f := &findings[i]
			if f.Property != prop.ID() || f.Status != "open" || neutralisers[f.Neutraliser] == nil {
				continue
			}
			already := false
			for _, u := range used {
				if u == f {
					already = true
				}
			}
			if already {
				continue
			}
			if f.OnlyIf != "" && curV != nil {
				if ok, _ := regexp.MatchString(f.OnlyIf, curV.Detail); !ok {
					continue
				}
			}
			nc, changed := neutralisers[f.Neutraliser](cur)
			if !changed {
				continue
			}
			v2, _ := runCheck(prop, nc)
			used = append(used, f)
			if v2 == nil {
				return used
			}
			cur, curV = nc, v2
			progressed = true
			break
		}
		if !progressed {
			return nil
		}
	}
	return nil
}

type replayFile struct {
	Property       string     `json:"property"`
	Rule           string     `json:"rule"`
	BaseSeed       uint64     `json:"base_seed"`
	Index          int        `json:"index"`
	Seed           uint64     `json:"seed"`
	Violation      *Violation `json:"violation"`
	Case           *Case      `json:"case"`
	Minimised      bool       `json:"minimised"`
	MinimiseSteps  int        `json:"minimise_steps"`
	ReplayVerified bool       `json:"replay_verified"`
	Note           string     `json:"note,omitempty"`
}

func verifRoot() string {
	if r := os.Getenv("VERIF_ROOT"); r != "" {
		return r
	}
	return "/verif"
}

func baseSeed() uint64 {
	s := os.Getenv("VERIF_SEED")
	if s == "" {
		return 1
	}
	if n, err := strconv.ParseUint(s, 10, 64); err == nil {
		return n
	}
	if n, err := strconv.ParseInt(s, 10, 64); err == nil {
		return uint64(n)
	}
	return propSalt(s)
}

func spawnWorker(prop, tier string, base uint64, from, to int, only string, gomaxprocs int) (*workerSummary, error) {
	exe, _ := os.Executable()
	args := []string{"worker", prop, tier, strconv.FormatUint(base, 10), strconv.Itoa(from), strconv.Itoa(to)}
	if only != "" {
		args = append(args, only)
	}
	// watchdog: a worker that does not finish is machinery trouble (exit 2), never a verdict
	limit := 25 * time.Minute
	if tier == "thorough" {
		limit = 5 * time.Hour
	}
	ctx, cancel := context.WithTimeout(context.Background(), limit)
	defer cancel()
	cmd := exec.CommandContext(ctx, exe, args...)
	pf, _ := os.CreateTemp(os.Getenv("VERIF_SCRATCH_DIR"), "progress-*")
	pfName := ""
	if pf != nil {
		pfName = pf.Name()
		pf.Close()
		defer os.Remove(pfName)
	}
	cmd.Env = append(os.Environ(), "GOMAXPROCS="+strconv.Itoa(gomaxprocs), "VERIF_PROGRESS="+pfName)
	var out, errb bytes.Buffer
	cmd.Stdout = &out
	cmd.Stderr = &errb
	if err := cmd.Run(); err != nil {
		if isDeadlock(errb.String()) {
			b, _ := os.ReadFile(pfName)
			idx, perr := strconv.Atoi(strings.TrimSpace(string(b)))
			if perr == nil {
				return nil, &deadlockError{index: idx, trace: trunc(errb.String(), 3000)}
			}
		}
		return nil, fmt.Errorf("worker %d-%d: %v\n%s", from, to, err, trunc(errb.String(), 4000))
	}
	var ws workerSummary
	if err := json.Unmarshal(out.Bytes(), &ws); err != nil {
		return nil, fmt.Errorf("worker %d-%d: bad summary: %v\n%s", from, to, err, trunc(out.String(), 2000))
	}
	return &ws, nil
}

// deadlockError: the Go runtime found every goroutine of a worker asleep while it was
// executing run `index`. In the simulation only package jen can cause that (a send or
// receive on a channel nobody will ever serve, a lock never released).
type deadlockError struct {
	index int
	trace string
}

func (d *deadlockError) Error() string { return fmt.Sprintf("deadlock while executing run %d", d.index) }

func isDeadlock(stderr string) bool {
	return strings.Contains(stderr, "all goroutines are asleep - deadlock")
}

// probeDeadlock re-executes one run index in a child process and reports whether it deadlocks again.
func probeDeadlock(propID, tier string, base uint64, index int) bool {
	exe, _ := os.Executable()
	ctx, cancel := context.WithTimeout(context.Background(), 2*time.Minute)
	defer cancel()
	cmd := exec.CommandContext(ctx, exe, "worker", propID, tier, strconv.FormatUint(base, 10), strconv.Itoa(index), strconv.Itoa(index+1))
	var errb bytes.Buffer
	cmd.Stderr = &errb
	err := cmd.Run()
	return err != nil && isDeadlock(errb.String())
}

func driver(propID, tier string) int {
	t0 := time.Now()
	prop := properties[propID]
	if prop == nil {
		fatal2("unknown property %s", propID)
	}
	base := baseSeed()
	root := verifRoot()
	total := prop.Runs(tier)
	if s := os.Getenv("VERIF_RUNS"); s != "" {
		total, _ = strconv.Atoi(s)
	}
	nw := runtime.NumCPU()
	if nw > 16 {
		nw = 16
	}
	if total < nw*4 {
		nw = 1
	}
	fmt.Printf("simcheck property=%s tier=%s VERIF_SEED=%d runs=%d workers=%d\n", propID, tier, base, total, nw)

	sums := make([]*workerSummary, nw)
	errs := make([]error, nw)
	var wg sync.WaitGroup
	per := (total + nw - 1) / nw
	for w := 0; w < nw; w++ {
		from, to := w*per, (w+1)*per
		if to > total {
			to = total
		}
		if from >= to {
			continue
		}
		wg.Add(1)
		go func(w, from, to int) {
			defer wg.Done()
			sums[w], errs[w] = spawnWorker(propID, tier, base, from, to, "", 16)
		}(w, from, to)
	}
	wg.Wait()
	var deadlocks []workerViolation
	for _, e := range errs {
		if e == nil {
			continue
		}
		if de, ok := e.(*deadlockError); ok {
			seed := RunSeed(base, propID, de.index)
			var c *Case
			if ix, ok := prop.(Indexed); ok {
				c = ix.GenAt(de.index, seed, tier)
			} else {
				c = prop.Gen(seed, tier)
			}
			v := &Violation{Rule: propID + "-deadlock", Observed: de.trace,
				Detail: fmt.Sprintf("run %d never finishes: every goroutine is blocked inside the library (Go runtime: all goroutines are asleep). The simulation runs one task at a time and owns every lock, so only a channel operation or lock inside package jen that nothing will ever release can cause this", de.index)}
			if probeDeadlock(propID, tier, base, de.index) {
				v.Detail += "; reproduced in a fresh process running this run alone"
			} else {
				v.Detail += "; NOT reproduced by this run alone in a fresh process: it depends on what the worker executed before (state that survives in the process)"
			}
			deadlocks = append(deadlocks, workerViolation{Index: de.index, Seed: seed, V: v, Case: c})
			continue
		}
		fmt.Fprintf(os.Stderr, "simcheck: %v\n", e)
		return 2
	}

	// aggregate
	agg := &workerSummary{Counters: map[string]int{}, Det: map[string]string{}, MapCalls: map[string]int{}}
	knownSeen := map[string]int{}
	keys, inters, states, sites := map[string]bool{}, map[string]bool{}, map[string]bool{}, map[int]bool{}
	for _, s := range sums {
		if s == nil {
			continue
		}
		agg.Evaluations += s.Evaluations
		agg.Vacuous += s.Vacuous
		agg.Steps += s.Steps
		agg.NViol += s.NViol
		agg.Uncontrolled += s.Uncontrolled
		agg.Violations = append(agg.Violations, s.Violations...)
		agg.Dropped += s.Dropped
		for k, n := range s.Known {
			knownSeen[k] += n
		}
		agg.Samples = append(agg.Samples, s.Samples...)
		for _, k := range s.Keys {
			keys[k] = true
		}
		for _, k := range s.Inters {
			inters[k] = true
		}
		for _, k := range s.States {
			states[k] = true
		}
		for _, id := range s.SitesHit {
			sites[id] = true
		}
		for k, n := range s.Counters {
			agg.Counters[k] += n
		}
		for k, n := range s.MapCalls {
			agg.MapCalls[k] += n
		}
		for k, d := range s.Det {
			agg.Det[k] = d
		}
		agg.NumSites = s.NumSites
		agg.Meta = s.Meta
	}

	// determinism gate: the sampled runs again, in one fresh process with GOMAXPROCS=1
	gateTrouble := ""
	var gateViolations []workerViolation
	if len(agg.Det) > 0 {
		var idx []string
		for k := range agg.Det {
			idx = append(idx, k)
		}
		sort.Strings(idx)
		if len(idx) > 400 { // an even sample of the sampled runs is re-executed
			var pick []string
			for k := 0; k < 400; k++ {
				pick = append(pick, idx[k*len(idx)/400])
			}
			idx = pick
		}
		ws, err := spawnWorker(propID, tier, base, 0, total, strings.Join(idx, ","), 1)
		if err != nil {
			if _, isDL := err.(*deadlockError); !isDL {
				gateTrouble = fmt.Sprintf("determinism re-run failed: %v", err)
			}
		} else {
			for _, k := range idx {
				if ws.Det[k] != agg.Det[k] {
					gateTrouble = fmt.Sprintf("NONDETERMINISTIC SIMULATION: run index %s gave event digest %s, then %s in a second process (GOMAXPROCS=1)", k, agg.Det[k], ws.Det[k])
					// C07 is about exactly this: if what the reference execution RENDERED differs between
					// two processes running the same decisions, the library's output depends on state the
					// simulator does not own (addresses, time, randomness) - a violation, not machinery trouble
					a, b := strings.SplitN(agg.Det[k], "|", 2), strings.SplitN(ws.Det[k], "|", 2)
					if propID == "C07" && len(a) == 2 && len(b) == 2 && a[1] != "" && a[1] != b[1] && len(gateViolations) < 3 {
						i, _ := strconv.Atoi(k)
						seed := RunSeed(base, propID, i)
						c := prop.Gen(seed, tier)
						gateViolations = append(gateViolations, workerViolation{Index: i, Seed: seed, Case: c,
							V: &Violation{Rule: "C07-process-differs", Detail: fmt.Sprintf("run %d: the same construction under the same map-order decisions rendered different bytes in two processes (digests %s vs %s): output depends on state outside the construction (addresses, time, randomness). The replay file carries the recipe; the difference shows between processes, not inside one.", i, a[1], b[1])}})
					}
					if propID != "C07" {
						break
					}
				}
			}
			if gateTrouble == "" {
				agg.Counters["determinism_reruns_identical"] = len(idx)
			}
		}
	}
	if agg.Uncontrolled > 0 {
		fmt.Fprintf(os.Stderr, "simcheck: %d map ranges ran in an order the simulator did not control (keys of a type it cannot canonicalise); runs are not replayable\n", agg.Uncontrolled)
		return 2
	}

	agg.Violations = append(agg.Violations, deadlocks...)
	agg.NViol += len(deadlocks)
	agg.Violations = append(agg.Violations, gateViolations...)
	agg.NViol += len(gateViolations)
	// auxiliary legs a property runs after the sweep (C09: real goroutines under the race detector)
	if pc, ok := prop.(PostChecker); ok {
		pv, pcnt, perr := pc.Post(tier, base)
		if perr != nil {
			if len(agg.Violations) == 0 {
				fmt.Fprintf(os.Stderr, "simcheck: auxiliary leg failed: %v\n", perr)
				return 2
			}
			// the seeded sweep already has violations to report; the leg's trouble is noted, not fatal
			fmt.Printf("note: auxiliary leg did not complete (%v); reporting the violations of the simulated sweep\n", perr)
		}
		agg.Violations = append(agg.Violations, pv...)
		agg.NViol += len(pv)
		for k, n := range pcnt {
			agg.Counters[k] += n
		}
	}

	// violations: attribute to known findings, else minimise and report
	findings := loadFindings(root)
	sort.Slice(agg.Violations, func(i, j int) bool { return agg.Violations[i].Index < agg.Violations[j].Index })
	exit := 0
	reported := 0
	os.MkdirAll(filepath.Join(root, "replays"), 0755)
	for _, wv := range agg.Violations {
		if !strings.HasSuffix(wv.V.Rule, "-deadlock") && wv.V.Rule != "C07-process-differs" {
			if kfs := classify(prop, wv.Case, findings, wv.V); kfs != nil {
				for _, kf := range kfs {
					knownSeen[kf.ID]++
				}
				continue
			}
		}
		if reported >= 3 {
			reported++
			continue
		}
		reported++
		exit = 1
		var mc *Case
		var mv *Violation
		steps := 0
		if strings.HasSuffix(wv.V.Rule, "-deadlock") || wv.V.Rule == "C07-process-differs" {
			mc, mv = wv.Case, wv.V
		} else {
			mc, mv, steps = minimise(prop, wv.Case, wv.V, 400)
		}
		rf := &replayFile{Property: propID, Rule: mv.Rule, BaseSeed: base, Index: wv.Index, Seed: wv.Seed, Violation: mv, Case: mc, Minimised: steps > 0, MinimiseSteps: steps}
		// a minimised case may have turned into a known finding's shape; if so report the unminimised one
		if kfs := classify(prop, mc, findings, mv); kfs != nil && steps > 0 {
			rf.Case, rf.Violation, rf.Minimised = wv.Case, wv.V, false
			rf.Note = "minimisation drifted into known finding " + kfs[0].ID + "; unminimised case reported"
		}
		path := filepath.Join(root, "replays", fmt.Sprintf("%s-%d-%d.json", propID, base, wv.Index))
		writeReplay(path, rf)
		rf.ReplayVerified = verifyReplay(path)
		writeReplay(path, rf)
		fmt.Printf("VIOLATION property=%s replay=%s\n", propID, path)
		fmt.Printf("  rule=%s seed=%d index=%d minimised=%v replay_verified=%v\n  %s\n", rf.Violation.Rule, wv.Seed, wv.Index, rf.Minimised, rf.ReplayVerified, rf.Violation.Detail)
	}
	if reported > 3 || agg.Dropped > 0 {
		fmt.Printf("  (+%d further unattributed violating runs not minimised; %d violating runs in total)\n", reported-3+agg.Dropped, agg.NViol)
	}
	var kids []string
	for id := range knownSeen {
		kids = append(kids, id)
	}
	sort.Strings(kids)
	for _, id := range kids {
		for _, f := range findings {
			if f.ID == id {
				fmt.Printf("KNOWN-FINDING: property=%s %s: %s (%d runs)\n", propID, f.ID, f.What, knownSeen[id])
			}
		}
	}

	if gateTrouble != "" {
		if exit == 0 {
			// nothing else to report: a simulation that does not repeat itself proves nothing
			fmt.Fprintf(os.Stderr, "simcheck: %s; refusing to report a clean result\n", gateTrouble)
			return 2
		}
		// violations were found and each carries its own replay_verified flag; the library under
		// test evidently behaves differently from process to process (uncontrolled state: time,
		// randomness, addresses, goroutines of its own), which is noted, not hidden
		fmt.Printf("note: %s\n", gateTrouble)
	}
	wall := time.Since(t0).Seconds()
	if err := writeEvidence(root, prop, tier, base, agg, len(keys), len(inters), len(states), len(sites), knownSeen, exit, wall); err != nil {
		fmt.Fprintf(os.Stderr, "simcheck: evidence: %v\n", err)
		return 2
	}
	if agg.Evaluations > 0 && agg.Vacuous*5 > agg.Evaluations {
		fmt.Fprintf(os.Stderr, "simcheck: %d of %d runs never reached the oracle (vacuity guard)\n", agg.Vacuous, agg.Evaluations)
		if exit == 0 {
			return 2
		}
	}
	if len(keys) < 2 && exit == 0 {
		fmt.Fprintf(os.Stderr, "simcheck: fewer than 2 distinct non-trivial cases explored\n")
		return 2
	}
	fmt.Printf("simcheck property=%s tier=%s: %d runs, %d distinct non-trivial, %d violations (%d attributed to known findings), %.1fs\n",
		propID, tier, agg.Evaluations, len(keys), agg.NViol, agg.NViol-len(agg.Violations)-agg.Dropped, wall)
	return exit
}

func sumInts(m map[string]int) int {
	n := 0
	for _, v := range m {
		n += v
	}
	return n
}

func writeReplay(path string, rf *replayFile) {
	b, _ := json.MarshalIndent(rf, "", " ")
	os.WriteFile(path, b, 0644)
}

// verifyReplay replays the file in a fresh process and expects the same rule to fail.
func verifyReplay(path string) bool {
	exe, _ := os.Executable()
	cmd := exec.Command(exe, "replay", path)
	out, _ := cmd.CombinedOutput()
	return cmd.ProcessState != nil && cmd.ProcessState.ExitCode() == 1 && bytes.Contains(out, []byte("VIOLATION property="))
}

// replayCmd replays a file. The check itself runs in a child process, so that a
// deadlocking case is reported instead of taking the replayer down.
func replayCmd(path string) int {
	if os.Getenv("VERIF_REPLAY_INNER") == "" {
		exe, _ := os.Executable()
		ctx, cancel := context.WithTimeout(context.Background(), 10*time.Minute)
		defer cancel()
		cmd := exec.CommandContext(ctx, exe, "replay", path)
		cmd.Env = append(os.Environ(), "VERIF_REPLAY_INNER=1")
		var errb bytes.Buffer
		cmd.Stdout = os.Stdout
		cmd.Stderr = &errb
		err := cmd.Run()
		if err != nil && isDeadlock(errb.String()) {
			var rf replayFile
			if b, e := os.ReadFile(path); e == nil {
				json.Unmarshal(b, &rf)
			}
			fmt.Printf("VIOLATION property=%s replay=%s\n  rule=%s-deadlock: every goroutine is blocked inside the library\n", rf.Property, path, rf.Property)
			return 1
		}
		os.Stderr.Write(errb.Bytes())
		if cmd.ProcessState != nil {
			return cmd.ProcessState.ExitCode()
		}
		return 2
	}
	b, err := os.ReadFile(path)
	if err != nil {
		fatal2("%v", err)
	}
	var rf replayFile
	if err := json.Unmarshal(b, &rf); err != nil {
		fatal2("replay file: %v", err)
	}
	prop := properties[rf.Property]
	if prop == nil {
		fatal2("unknown property %q", rf.Property)
	}
	v, _ := prop.Check(rf.Case)
	if v == nil {
		fmt.Printf("replay %s: property %s holds on this case (recorded rule %s does not fail)\n", path, rf.Property, rf.Rule)
		return 0
	}
	same := v.Rule == rf.Rule
	fmt.Printf("VIOLATION property=%s replay=%s\n  rule=%s (recorded %s, same=%v)\n  %s\n", rf.Property, path, v.Rule, rf.Rule, same, v.Detail)
	if rf.Violation != nil && v.Observed != rf.Violation.Observed {
		fmt.Printf("  note: observed value differs from the recorded one\n")
	}
	return 1
}

func writeEvidence(root string, prop Property, tier string, base uint64, agg *workerSummary, nkeys, ninters, nstates, nsites int, known map[string]int, exit int, wall float64) error {
	samples := []interface{}{}
	for _, s := range agg.Samples {
		if len(samples) >= 3 {
			break
		}
		var v interface{}
		json.Unmarshal(s, &v)
		samples = append(samples, v)
	}
	if len(samples) == 0 {
		samples = append(samples, "no non-trivial sample captured by worker 0")
	}
	cov := map[string]interface{}{
		"evaluations":            agg.Evaluations,
		"distinct_nontrivial":    nkeys,
		"rule":                   prop.Rule(),
		"samples":                samples,
		"runs_per_hour":          int(float64(agg.Evaluations) / wall * 3600),
		"seeds":                  fmt.Sprintf("VERIF_SEED=%d; run i uses splitmix(VERIF_SEED, %s, i), i in [0,%d)", base, prop.ID(), agg.Evaluations),
		"simulated_steps_total":  agg.Steps,
		"simulated_time":         "logical only: package jen reads no clock; one step = one statement of package jen passing a yield point",
		"faults_and_probes":      agg.Counters,
		"map_range_sites":        agg.MapCalls,
		"distinct_interleavings": ninters,
		"distinct_states":        nstates,
		"jen_statement_sites_hit": nsites,
		"jen_statement_sites_total": agg.NumSites,
		"vacuous_runs":           agg.Vacuous,
		"violating_runs":         agg.NViol,
		"known_finding_runs":     known,
		"rewriter":               agg.Meta,
		"components": map[string]string{
			"real":      "package jen from /repo's working tree (rewritten only at the seams), go/format, go/parser, go/scanner, go/types",
			"simulated": "map iteration order (every range over a map in jen), caller's io.Writer, os entry points used by jen (fault layer over a real sandbox directory), goroutine schedule (C09)",
			"not_run":   "genjen, gennames",
		},
	}
	ev := map[string]interface{}{
		"property_id": prop.ID(),
		"tier":        tier,
		"seed":        int64(base & 0x7fffffffffffffff),
		"level":       prop.Level(),
		"coverage":    cov,
		"assumptions": []string{
			"the AST rewrite of package jen preserves behaviour: a key snapshot in a chosen permutation is one of the orders the Go spec allows for a map range",
			"go/format, go/parser and go/types of the installed toolchain are correct",
			"a clean batch is evidence over the sampled seeds, not a proof",
		},
		"wall_s":     wall,
		"violations": len(agg.Violations) + agg.Dropped,
	}
	b, err := json.MarshalIndent(ev, "", " ")
	if err != nil {
		return err
	}
	dir := filepath.Join(root, "evidence")
	if e := os.Getenv("VERIF_EVIDENCE_DIR"); e != "" {
		dir = e // runs against modified copies of the repository (tools/) keep their evidence to themselves
	}
	os.MkdirAll(dir, 0755)
	return os.WriteFile(filepath.Join(dir, prop.ID()+".json"), b, 0644)
}

func main() {
	snapshotGlobals()
	if len(os.Args) < 2 {
		fatal2("usage: simrun check|worker|replay|selftest ...")
	}
	switch os.Args[1] {
	case "check":
		if len(os.Args) < 4 {
			fatal2("usage: simrun check <property> <tier>")
		}
		os.Exit(driver(os.Args[2], os.Args[3]))
	case "worker":
		prop := properties[os.Args[2]]
		if prop == nil {
			fatal2("unknown property")
		}
		base, _ := strconv.ParseUint(os.Args[4], 10, 64)
		from, _ := strconv.Atoi(os.Args[5])
		to, _ := strconv.Atoi(os.Args[6])
		var only map[int]bool
		if len(os.Args) > 7 {
			only = map[int]bool{}
			for _, s := range strings.Split(os.Args[7], ",") {
				n, _ := strconv.Atoi(s)
				only[n] = true
			}
		}
		ws := runWorker(prop, os.Args[3], base, from, to, only, 6)
		w := bufio.NewWriter(os.Stdout)
		json.NewEncoder(w).Encode(ws)
		w.Flush()
	case "replay":
		os.Exit(replayCmd(os.Args[2]))
	case "selftest":
		os.Exit(selftest())
	case "identitydigests":
		identityDigestsCmd(os.Args[2:])
	case "plainhist":
		base, _ := strconv.ParseUint(os.Args[2], 10, 64)
		from, _ := strconv.Atoi(os.Args[3])
		to, _ := strconv.Atoi(os.Args[4])
		reps, _ := strconv.Atoi(os.Args[5])
		plainHist(base, from, to, reps, os.Args[6], len(os.Args) > 7 && os.Args[7] == "rev")
	case "racesweep":
		base, _ := strconv.ParseUint(os.Args[2], 10, 64)
		rounds, _ := strconv.Atoi(os.Args[3])
		os.Exit(raceSweep(base, rounds))
	case "raceexec":
		os.Exit(raceExecFile(os.Args[2]))
	case "one":
		// simrun one <property> <tier> <index>: run one index verbosely (debugging aid)
		prop := properties[os.Args[2]]
		idx, _ := strconv.Atoi(os.Args[4])
		seed := RunSeed(baseSeed(), prop.ID(), idx)
		c := prop.Gen(seed, os.Args[3])
		if ix, ok := prop.(Indexed); ok {
			c = ix.GenAt(idx, seed, os.Args[3])
		}
		v, ri := runCheck(prop, c)
		b, _ := json.Marshal(freeze(c, ri))
		fmt.Println(string(b))
		if v != nil {
			fmt.Printf("VIOLATION rule=%s\n%s\n--- expected\n%s\n--- observed\n%s\n", v.Rule, v.Detail, v.Expected, v.Observed)
		}
		fmt.Printf("counters=%v nontrivial=%v\n", ri.Counters, ri.Nontrivial)
	case "errs":
		// simrun errs <property> <tier> <index>: print the error text of failing renders (generator tuning aid)
		prop := properties[os.Args[2]]
		idx, _ := strconv.Atoi(os.Args[4])
		c := prop.Gen(RunSeed(baseSeed(), prop.ID(), idx), os.Args[3])
		if c.Recipe != nil {
			for _, o := range Exec(c.Recipe, newEnv(newFileSim("identity", 0))) {
				if o.Render && !o.OK {
					fmt.Println(strings.SplitN(o.Err+o.Panic, "\n", 2)[0])
				}
			}
		}
	case "gen":
		// simrun gen <property> <tier> <seed>: print the case a seed generates
		prop := properties[os.Args[2]]
		seed, _ := strconv.ParseUint(os.Args[4], 10, 64)
		c := prop.Gen(seed, os.Args[3])
		b, _ := json.MarshalIndent(c, "", " ")
		fmt.Println(string(b))
	default:
		fatal2("unknown command %s", os.Args[1])
	}
}
