package main


type DictCase struct{}

func (*DictCase) size() int { return 0 }
