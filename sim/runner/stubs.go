package main

type ConcCase struct{}

func (*ConcCase) size() int { return 0 }

type CloneCase struct{}

func (*CloneCase) size() int { return 0 }

type DictCase struct{}

func (*DictCase) size() int { return 0 }
