package main

// A recipe is a JSON-serialisable program over jennifer's public API. Building it
// twice yields fresh, disjoint object graphs.

// PathSpec is one import path of the run's universe.
type PathSpec struct {
	Path string `json:"path"`
	Name string `json:"name"` // the package's declared name (truth the oracle uses)
	Std  bool   `json:"std,omitempty"`
}

// Node is one element of the DSL tree.
type Node struct {
	K  string      `json:"k"`
	S  string      `json:"s,omitempty"`
	I  int         `json:"i,omitempty"`
	N  []*Node     `json:"n,omitempty"`
	B  []*Node     `json:"b,omitempty"`  // second child list (case/func bodies)
	KV [][2]*Node  `json:"kv,omitempty"` // Dict pairs
	T  [][2]string `json:"t,omitempty"`  // Tag pairs
	ID int         `json:"id,omitempty"` // node id (Dict: identifies the literal; pairs carry markers)
}

// WriterPlan describes the caller's io.Writer for one render.
type WriterPlan struct {
	FailAt int    `json:"fail_at,omitempty"` // 1-based Write call that fails; 0 = never
	Kind   string `json:"kind,omitempty"`    // "err" | "short"
	// Reenter: during its first Write call, before consuming the bytes, the writer causes an
	// unrelated File to be rendered on the same goroutine.
	Reenter bool `json:"reenter,omitempty"`
}

// FSPlan describes the filesystem situation for one Save.
type FSPlan struct {
	Target string `json:"target"`           // "fresh" | "existing" | "isdir" | "isdir-empty" | "noparent" | "parentfile" | "again[-mkparent|-deleted|-scribbled]" (the previous Save's path, after the world moved on)
	Inject string `json:"inject,omitempty"` // "" | "eacces" | "enospc" | "eio"
	At     int    `json:"at,omitempty"`     // which intercepted call (1-based) gets the fault
	Part   int    `json:"part,omitempty"`   // bytes that land before enospc/eio (percent of size)
	RO     bool   `json:"ro,omitempty"`     // an existing target is read-only (mode 0444)
}

// Op is one step of a File history.
type Op struct {
	K    string      `json:"k"`
	P    []int       `json:"p,omitempty"` // path indices
	S    string      `json:"s,omitempty"`
	I    int         `json:"i,omitempty"`
	Node *Node       `json:"node,omitempty"`
	W    *WriterPlan `json:"w,omitempty"`
	F    *FSPlan     `json:"f,omitempty"`
}

// Op kinds:
//   hint_name  P[0]            f.ImportName(path, declared name)
//   hint_names P...            f.ImportNames(map)
//   hint_alias P[0], S         f.ImportAlias(path, S)
//   anon       P...            f.Anon(paths...)
//   prefix     S               f.PackagePrefix = S
//   noformat   I               f.NoFormat = I!=0
//   pkgcomment S / header S / canonical S / cgo S (f.CgoPreamble)
//   add        Node            f.Add(build(Node))
//   fill       I, Node         the statement built by the node {k:"placeholder", i:I} gets build(Node) appended (it was empty, i.e. null, until now)
//   add_to_group I, Node       group[I].Add(build(Node))   (a later addition inside a captured function/case body)
//   addfrag    I               f.Add(fragment I)   (shares the fragment's Code value with the File)
//   gostring                   f.GoString()  (what fmt's %#v prints; panics on error)
//   render     W               f.Render(w)
//   save       F               f.Save(target)
//   render_frag I, W           frag[I].RenderWithFile(w, f)
//   render_frag_nofile I, W    frag[I].Render(w)
//   render_group I, W          group[I].RenderWithFile(w, f)   (groups captured while building; I modulo count)
//   render_group_nofile I, W   group[I].Render(w)
//   render_body W              f.Group.RenderWithFile(w, f)

// FileSpec is how the File is constructed.
type FileSpec struct {
	Ctor string `json:"ctor"` // "name" | "path" | "pathname"
	Name string `json:"name,omitempty"`
	Path string `json:"path,omitempty"`
}

type Recipe struct {
	File  FileSpec   `json:"file"`
	Paths []PathSpec `json:"paths"`
	Ops   []Op       `json:"ops"`
	Frags []*Node    `json:"frags,omitempty"`
}

func (n *Node) walk(f func(*Node)) {
	if n == nil {
		return
	}
	f(n)
	for _, c := range n.N {
		c.walk(f)
	}
	for _, c := range n.B {
		c.walk(f)
	}
	for _, kv := range n.KV {
		kv[0].walk(f)
		kv[1].walk(f)
	}
}

func (r *Recipe) walk(f func(*Node)) {
	for _, op := range r.Ops {
		op.Node.walk(f)
	}
	for _, fr := range r.Frags {
		fr.walk(f)
	}
}

func cloneNode(n *Node) *Node {
	if n == nil {
		return nil
	}
	c := *n
	c.N = nil
	for _, x := range n.N {
		c.N = append(c.N, cloneNode(x))
	}
	c.B = nil
	for _, x := range n.B {
		c.B = append(c.B, cloneNode(x))
	}
	c.KV = nil
	for _, kv := range n.KV {
		c.KV = append(c.KV, [2]*Node{cloneNode(kv[0]), cloneNode(kv[1])})
	}
	c.T = append([][2]string(nil), n.T...)
	return &c
}

func cloneRecipe(r *Recipe) *Recipe {
	c := &Recipe{File: r.File}
	c.Paths = append([]PathSpec(nil), r.Paths...)
	for _, op := range r.Ops {
		o := op
		o.P = append([]int(nil), op.P...)
		o.Node = cloneNode(op.Node)
		if op.W != nil {
			w := *op.W
			o.W = &w
		}
		if op.F != nil {
			f := *op.F
			o.F = &f
		}
		c.Ops = append(c.Ops, o)
	}
	for _, fr := range r.Frags {
		c.Frags = append(c.Frags, cloneNode(fr))
	}
	return c
}
