package main

import (
	"bytes"
	"encoding/json"
	"fmt"
	"os"
	"os/exec"
	"sort"
	"strconv"
)

// C07 — same construction, same bytes: the recipe is built K times from scratch,
// each execution under a different map-iteration-order policy; every render of the
// history must produce the same bytes in every execution.

type propC07 struct{}

func init() { register(propC07{}) }

func (propC07) ID() string    { return "C07" }
func (propC07) Level() string { return "exploration" }
func (propC07) Rule() string {
	return "a case = one seeded recipe (File history with Dicts, Tags, hint maps, colliding imports) executed K times on fresh objects, each under its own policy for every map range in package jen (identity, reverse, seeded shuffles); distinct = distinct recipe digest; non-trivial = at least one map range with >=2 keys had a non-identity order applied in some execution"
}
func (propC07) Runs(tier string) int {
	if tier == "thorough" {
		return 2000000
	}
	return 60000
}

func genConfigOps(g *Gen, r *RNG, dotOK bool) []Op {
	var ops []Op
	n := len(g.paths)
	if n == 0 {
		return nil
	}
	for i := r.Intn(4); i > 0; i-- {
		switch r.Intn(6) {
		case 0:
			ops = append(ops, Op{K: "hint_name", P: []int{r.Intn(n)}})
		case 1:
			var ps []int
			for j := r.Range(1, n); j > 0; j-- {
				ps = append(ps, r.Intn(n))
			}
			ops = append(ops, Op{K: "hint_names", P: ps})
		case 2:
			a := g.alias()
			if dotOK && r.Chance(0.25) {
				a = "."
			}
			ops = append(ops, Op{K: "hint_alias", P: []int{r.Intn(n)}, S: a})
		case 3:
			var ps []int
			for j := r.Range(1, 2); j > 0; j-- {
				ps = append(ps, r.Intn(n))
			}
			ops = append(ops, Op{K: "anon", P: ps})
		case 4:
			ops = append(ops, Op{K: "prefix", S: r.Pick([]string{"pkg", "p", "x_"})})
		case 5:
			ops = append(ops, Op{K: "noformat", I: 1})
		}
	}
	return ops
}

func genFileSpec(g *Gen, r *RNG, local bool) FileSpec {
	if local && len(g.paths) > 0 && r.Chance(0.3) {
		p := g.paths[r.Intn(len(g.paths))]
		if r.Chance(0.5) {
			return FileSpec{Ctor: "path", Path: p.Path}
		}
		return FileSpec{Ctor: "pathname", Path: p.Path, Name: "main"}
	}
	return FileSpec{Ctor: "name", Name: r.Pick([]string{"main", "a", "gen"})}
}

func (propC07) Gen(seed uint64, tier string) *Case {
	r := NewRNG(seed)
	cfg := baseCfg(r)
	cfg.PDict = []float64{0.15, 0.3, 0.5}[r.Intn(3)]
	cfg.PTag = []float64{0.1, 0.3}[r.Intn(2)]
	cfg.NStd = r.Intn(3)
	cfg.NPaths = r.Range(2, 8)
	if tier == "thorough" {
		cfg.NPaths = r.Range(2, 12)
	}
	if r.Chance(0.12) {
		cfg.KeyQualMode = 2 // Dict keys may register colliding imports (known-finding trigger)
	}
	if r.Chance(0.10) {
		cfg.EqualKeys = 0.3 // distinct keys with equal text (known-finding trigger)
	}
	g := &Gen{r: r, cfg: cfg}
	g.universe()
	rec := &Recipe{Paths: g.paths}
	rec.File = genFileSpec(g, r, true)
	rec.Ops = append(rec.Ops, genConfigOps(g, r, true)...)
	for i := r.Range(1, 4); i > 0; i-- {
		rec.Ops = append(rec.Ops, Op{K: "add", Node: g.decl()})
	}
	for i := r.Intn(3); i > 0; i-- {
		rec.Frags = append(rec.Frags, g.fragment())
	}
	// renders, with the occasional late addition in between
	for i := r.Range(1, 4); i > 0; i-- {
		switch {
		case len(rec.Frags) > 0 && r.Chance(0.3):
			rec.Ops = append(rec.Ops, Op{K: "render_frag", I: r.Intn(len(rec.Frags))})
		case r.Chance(0.15):
			rec.Ops = append(rec.Ops, Op{K: "add", Node: g.decl()})
			rec.Ops = append(rec.Ops, Op{K: "render"})
		case r.Chance(0.1):
			rec.Ops = append(rec.Ops, Op{K: "render_group", I: r.Intn(4)})
		default:
			rec.Ops = append(rec.Ops, Op{K: "render"})
		}
	}
	k := 4
	if tier == "thorough" {
		k = 8
	}
	c := &Case{Property: "C07", Seed: seed, Tier: tier, Recipe: rec}
	if r.Chance(0.5) {
		// an unrelated File over the same pools of hosts and base names (colliding with this one's)
		pr := NewRNG(Mix(seed, 0xb011))
		pcfg := baseCfg(pr)
		pcfg.NPaths = pr.Range(2, 6)
		pg := &Gen{r: pr, cfg: pcfg}
		pg.universe()
		prec := &Recipe{Paths: pg.paths, File: FileSpec{Ctor: "name", Name: "other"}}
		for i := pr.Range(1, 2); i > 0; i-- {
			prec.Ops = append(prec.Ops, Op{K: "add", Node: pg.decl()})
		}
		if pr.Chance(0.5) {
			// ... whose first render meets a failing writer (whatever that leaves behind in the process)
			prec.Ops = append(prec.Ops, Op{K: "render", W: &WriterPlan{FailAt: 1, Kind: "err"}})
		}
		prec.Ops = append(prec.Ops, Op{K: "render"})
		c.Pollute = []*Recipe{prec}
	}
	c.Cfg, _ = json.Marshal(cfg)
	c.Execs = append(c.Execs, ExecSpec{Mode: "identity"}, ExecSpec{Mode: "reverse"})
	for i := 2; i < k; i++ {
		c.Execs = append(c.Execs, ExecSpec{Mode: "shuffle", Seed: Mix(seed, uint64(i))})
	}
	return c
}

var junkSink [][]byte

func (propC07) Check(c *Case) (*Violation, *RunInfo) {
	ri := &RunInfo{}
	var ref []Outcome
	var viol *Violation
	nonIdent := false
	for ei, es := range c.Execs {
		// move addresses between builds
		junkSink = nil
		for j := 0; j < 8+ei*3; j++ {
			junkSink = append(junkSink, make([]byte, 64+j*40))
		}
		if ei > 0 && len(c.Pollute) > 0 && ei%2 == 1 {
			// from the state a fresh process starts with, something unrelated happens first
			restoreGlobals()
			Exec(c.Pollute[(ei/2)%len(c.Pollute)], newEnv(newFileSim("identity", 0)))
			ri.count("executions_after_unrelated_work", 1)
		}
		sim := es.sim()
		hist := Exec(c.Recipe, newEnv(sim))
		ri.Steps += sim.Steps
		ri.Frozen = append(ri.Frozen, frozenSpec(sim))
		if len(sim.Log) > 0 {
			nonIdent = true
		}
		ri.count("map_ranges_n>=2", sim.calls)
		ri.count("non_identity_orders", len(sim.Log))
		if ei == 0 {
			ref = hist
			for _, o := range hist {
				if o.Render {
					ri.count("renders_"+errClass(&o), 1)
					ri.States = append(ri.States, o.State)
				}
			}
			continue
		}
		if viol != nil {
			continue
		}
		for i := range hist {
			a, b := &ref[i], &hist[i]
			if !a.Render {
				continue
			}
			if a.class() != b.class() {
				viol = &Violation{Rule: "C07-outcome-differs", Op: i, Exec: ei,
					Detail:   fmt.Sprintf("op %d (%s %s): execution 0 (%s) ended %s, execution %d (%s) ended %s", i, a.Kind, a.Obj, c.Execs[0].Mode, a.class(), ei, es.Mode, b.class()),
					Expected: a.class() + " " + trunc(a.Err+a.Panic, 300), Observed: b.class() + " " + trunc(b.Err+b.Panic, 300)}
				break
			}
			if a.OK && !bytes.Equal(a.Out, b.Out) {
				viol = &Violation{Rule: "C07-bytes-differ", Op: i, Exec: ei,
					Detail:   fmt.Sprintf("op %d (%s %s): same construction rendered different bytes under map order policy %q vs %q; %s", i, a.Kind, a.Obj, c.Execs[0].Mode, es.Mode, firstDiff(a.Out, b.Out)),
					Expected: trunc(string(a.Out), 1500), Observed: trunc(string(b.Out), 1500)}
				break
			}
		}
	}
	ri.Nontrivial = nonIdent
	ri.Key = digest(c.Recipe)
	ri.Inter = digest(ri.Frozen)
	if viol == nil && len(junkSink) == 0 {
		panic("unreachable")
	}
	return viol, ri
}

func firstDiff(a, b []byte) string {
	n := len(a)
	if len(b) < n {
		n = len(b)
	}
	i := 0
	for i < n && a[i] == b[i] {
		i++
	}
	lo := i - 30
	if lo < 0 {
		lo = 0
	}
	ha, hb := i+30, i+30
	if ha > len(a) {
		ha = len(a)
	}
	if hb > len(b) {
		hb = len(b)
	}
	return fmt.Sprintf("first difference at byte %d: %q vs %q", i, a[lo:ha], b[lo:hb])
}

// ---- cross-process leg: the plain package under the real runtime's map order ----

func c07SafeCase(base uint64, i int, tier string) *Case {
	seed := RunSeed(base, "C07-plain", i)
	for k := uint64(0); ; k++ {
		c := propC07{}.Gen(Mix(seed, k), tier)
		var cfg GenCfg
		json.Unmarshal(c.Cfg, &cfg)
		if cfg.KeyQualMode != 2 && cfg.EqualKeys == 0 {
			return c
		}
	}
}

// plainHist (runs inside the plain, unrewritten binary): every case built and rendered
// `repeats` times in this process; prints index -> digest per repeat.
func plainHist(base uint64, from, to, repeats int, tier string, reverse bool) {
	out := map[string][]string{}
	for n := from; n < to; n++ {
		i := n
		if reverse { // a different process history: whatever one build leaves behind meets other builds
			i = to - 1 - (n - from)
		}
		c := c07SafeCase(base, i, tier)
		for rep := 0; rep < repeats; rep++ {
			junkSink = nil
			for j := 0; j < 5+rep*7; j++ {
				junkSink = append(junkSink, make([]byte, 48+j*24))
			}
			hist := Exec(c.Recipe, newEnv(nil))
			var parts []interface{}
			for _, o := range hist {
				if o.Render {
					parts = append(parts, o.class())
					if o.OK {
						parts = append(parts, o.Out)
					}
				}
			}
			out[fmt.Sprint(i)] = append(out[fmt.Sprint(i)], digest(parts...))
		}
	}
	b, _ := json.Marshal(out)
	os.Stdout.Write(b)
}

// Post: the same order-independent recipes in several fresh processes of the plain
// package (real map order, real addresses); any difference is a true positive.
func (propC07) Post(tier string, base uint64) ([]workerViolation, map[string]int, error) {
	counters := map[string]int{}
	plain := os.Getenv("VERIF_SIMRUN_PLAIN")
	if plain == "" {
		return nil, counters, nil
	}
	if _, err := os.Stat(plain); err != nil {
		return nil, counters, nil
	}
	n, procs, reps := 1500, 2, 3
	if tier == "thorough" {
		n, procs, reps = 20000, 3, 20
	}
	type res struct {
		m   map[string][]string
		err error
	}
	ch := make(chan res, procs*8)
	shards := 8
	per := (n + shards - 1) / shards
	jobs := 0
	for p := 0; p < procs; p++ {
		for s := 0; s < shards; s++ {
			from, to := s*per, min(n, (s+1)*per)
			if from >= to {
				continue
			}
			jobs++
			order := "fwd"
			if p%2 == 1 {
				order = "rev"
			}
			go func(from, to int) {
				cmd := exec.Command(plain, "plainhist", fmt.Sprint(base), fmt.Sprint(from), fmt.Sprint(to), fmt.Sprint(reps), tier, order)
				b, err := cmd.Output()
				var m map[string][]string
				if err == nil {
					err = json.Unmarshal(b, &m)
				}
				ch <- res{m, err}
			}(from, to)
		}
	}
	all := map[string]map[string]bool{}
	for j := 0; j < jobs; j++ {
		r := <-ch
		if r.err != nil {
			return nil, counters, fmt.Errorf("C07 cross-process leg: %v", r.err)
		}
		for k, ds := range r.m {
			if all[k] == nil {
				all[k] = map[string]bool{}
			}
			for _, d := range ds {
				all[k][d] = true
			}
		}
	}
	counters["cross_process_recipes"] = len(all)
	counters["cross_process_builds_per_recipe"] = procs * reps
	var viols []workerViolation
	var bad []int
	for k, ds := range all {
		if len(ds) > 1 {
			i, _ := strconv.Atoi(k)
			bad = append(bad, i)
		}
	}
	sort.Ints(bad)
	for _, i := range bad {
		c := c07SafeCase(base, i, tier)
		// try to pin the difference to simulated decisions, so that the replay is exact
		c.Execs = nil
		c.Execs = append(c.Execs, ExecSpec{Mode: "identity"}, ExecSpec{Mode: "reverse"})
		for k := 0; k < 30; k++ {
			c.Execs = append(c.Execs, ExecSpec{Mode: "shuffle", Seed: Mix(c.Seed, uint64(1000+k))})
		}
		if v, ri := runCheck(propC07{}, c); v != nil {
			viols = append(viols, workerViolation{Index: -1 - i, Seed: c.Seed, V: v, Case: freeze(c, ri)})
		} else if pc := pinToProcessHistory(base, i, tier); pc != nil {
			v, ri := runCheck(propC07{}, pc)
			if v != nil {
				v.Detail += " (found by the cross-process leg; pinned to one unrelated File built earlier in the same process)"
				viols = append(viols, workerViolation{Index: -1 - i, Seed: pc.Seed, V: v, Case: freeze(pc, ri)})
			}
		} else {
			c.Execs = []ExecSpec{{Mode: "identity"}}
			viols = append(viols, workerViolation{Index: -1 - i, Seed: c.Seed, Case: c,
				V: &Violation{Rule: "C07-plain-builds-differ", Detail: fmt.Sprintf("the same construction rendered %d different outputs over %d builds in %d fresh processes of the unrewritten package, although no simulated map order reproduces a difference: output depends on other incidental state (addresses, time, ...). The replay file carries the recipe; the difference shows under the real runtime only.", len(all[fmt.Sprint(i)]), procs*reps, procs)}})
		}
		if len(viols) >= 3 {
			break
		}
	}
	return viols, counters, nil
}

// pinToProcessHistory looks for one neighbouring case of the cross-process sweep whose
// earlier execution in the same process changes the output of case i, and returns a
// simulated case (recipe + that neighbour as Pollute) that fails without any real process.
func pinToProcessHistory(base uint64, i int, tier string) *Case {
	c := c07SafeCase(base, i, tier)
	render := func(before *Recipe) string {
		restoreGlobals()
		if before != nil {
			Exec(before, newEnv(newFileSim("identity", 0)))
		}
		var parts []interface{}
		for _, o := range Exec(c.Recipe, newEnv(newFileSim("identity", 0))) {
			if o.Render {
				parts = append(parts, o.class(), o.Out)
			}
		}
		return digest(parts...)
	}
	clean := render(nil)
	for d := 1; d <= 40; d++ {
		for _, j := range []int{i - d, i + d} {
			if j < 0 {
				continue
			}
			other := c07SafeCase(base, j, tier).Recipe
			if render(other) != clean {
				c.Pollute = []*Recipe{other}
				c.Execs = []ExecSpec{{Mode: "identity"}, {Mode: "identity"}}
				return c
			}
		}
	}
	return nil
}
