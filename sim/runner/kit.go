package main

import (
	"crypto/sha256"
	"encoding/hex"
	"encoding/json"
	"fmt"
	"os"
	"sort"
)

// ---- PRNG: one integer decides everything ----------------------------------

// RNG is splitmix64; every choice of a run is drawn from one instance.
type RNG struct{ s uint64 }

func NewRNG(seed uint64) *RNG { return &RNG{s: seed} }

func (r *RNG) U64() uint64 {
	r.s += 0x9e3779b97f4a7c15
	z := r.s
	z = (z ^ (z >> 30)) * 0xbf58476d1ce4e5b9
	z = (z ^ (z >> 27)) * 0x94d049bb133111eb
	return z ^ (z >> 31)
}

func (r *RNG) Intn(n int) int {
	if n <= 0 {
		return 0
	}
	return int(r.U64() % uint64(n))
}

// Range returns an int in [lo,hi].
func (r *RNG) Range(lo, hi int) int {
	if hi <= lo {
		return lo
	}
	return lo + r.Intn(hi-lo+1)
}

func (r *RNG) Chance(p float64) bool { return float64(r.U64()>>11)/float64(1<<53) < p }

func (r *RNG) Pick(ss []string) string { return ss[r.Intn(len(ss))] }

func (r *RNG) Perm(n int) []int {
	p := make([]int, n)
	for i := range p {
		p[i] = i
	}
	for i := n - 1; i > 0; i-- {
		j := r.Intn(i + 1)
		p[i], p[j] = p[j], p[i]
	}
	return p
}

// Mix derives a sub-seed.
func Mix(a ...uint64) uint64 {
	h := uint64(0x6a09e667f3bcc908)
	for _, x := range a {
		r := RNG{s: h ^ x}
		h = r.U64()
	}
	return h
}

func propSalt(prop string) uint64 {
	var h uint64 = 1469598103934665603
	for i := 0; i < len(prop); i++ {
		h ^= uint64(prop[i])
		h *= 1099511628211
	}
	return h
}

// RunSeed is the seed of run i of a property under a base seed.
func RunSeed(base uint64, prop string, i int) uint64 { return Mix(base, propSalt(prop), uint64(i)) }

// ---- digests ---------------------------------------------------------------

func digest(parts ...interface{}) string {
	h := sha256.New()
	for _, p := range parts {
		switch t := p.(type) {
		case []byte:
			fmt.Fprintf(h, "%d:", len(t))
			h.Write(t)
		case string:
			fmt.Fprintf(h, "%d:%s", len(t), t)
		default:
			b, _ := json.Marshal(t)
			fmt.Fprintf(h, "%d:", len(b))
			h.Write(b)
		}
	}
	return hex.EncodeToString(h.Sum(nil))[:16]
}

func isIdentityPerm(p []int) bool {
	for i, j := range p {
		if i != j {
			return false
		}
	}
	return true
}

func sortedKeys(m map[string]int) []string {
	ks := make([]string, 0, len(m))
	for k := range m {
		ks = append(ks, k)
	}
	sort.Strings(ks)
	return ks
}

func fatal2(format string, a ...interface{}) {
	fmt.Fprintf(os.Stderr, "simrun: "+format+"\n", a...)
	os.Exit(2)
}

func trunc(s string, n int) string {
	if len(s) <= n {
		return s
	}
	return s[:n] + fmt.Sprintf("…(+%d bytes)", len(s)-n)
}

var sandboxSeq int

// sandboxDir returns a fresh per-run directory for Save targets.
func sandboxDir() string {
	base := os.Getenv("VERIF_SANDBOX")
	if base == "" {
		base = os.TempDir()
	}
	sandboxSeq++
	d := fmt.Sprintf("%s/simsb-%d-%d", base, os.Getpid(), sandboxSeq)
	os.MkdirAll(d, 0755)
	return d
}

func cleanSandbox(d string) { os.RemoveAll(d) }
