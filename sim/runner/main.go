package main

import (
	"fmt"

	"github.com/dave/jennifer/jen"
	"github.com/dave/jennifer/simhook"
)

func main() {
	f := jen.NewFile("a")
	f.Func().Id("main").Params().Block(jen.Qual("fmt", "Println").Call(jen.Lit("x")))
	fmt.Printf("%#v\n", f)
	fmt.Println(simhook.Steps, simhook.NumSites, simhook.Meta)
}
